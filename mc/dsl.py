"""Explicit-state exploration of the DSL value graph (DESIGN.md 1.2).

A *state* is one pregex value, rebuilt from a python expression (`expr`) evaluated in
mc.env.NS.  A *transition* applies one public pattern-building operation, in all its
spellings, to real objects.  Every transition carries the reference composition of its
operands' own emitted patterns, so monitors can judge it locally.
"""
import re
import sys

from . import env, rx
from .env import NS

P = env.pre.Pregex
LIBEXC = env.exceptions


# ----------------------------------------------------------------------------------
# states
# ----------------------------------------------------------------------------------
class S:
    __slots__ = ('expr', 'obj', 'text', 'origin', 'lit', 'depth', 'alias')

    def __init__(self, expr, obj, origin='atom', lit=None, depth=0, alias=False):
        self.expr, self.obj, self.origin, self.lit, self.depth = expr, obj, origin, lit, depth
        self.text = str(obj)
        self.alias = alias   # the op returned one of its operands unchanged (documented shortcut)

    def key(self):
        return canon(self.obj)


def kind_of(o):
    c = env.classes
    if isinstance(o, c.Any):
        return 'Any'
    if isinstance(o, c.AnyWordChar):
        return 'W' + str(int(o._is_global()))
    if isinstance(o, c.AnyButWordChar):
        return 'NW' + str(int(o._is_global()))
    if hasattr(o, '_get_verbose_pattern'):
        return 'C'
    return 'P'


def canon(o):
    k = kind_of(o)
    if k == 'P':
        return ('P', str(o))
    return (k, str(o), o._get_verbose_pattern())


def snapshot(o):
    """Everything a builder or a matcher can observe of a value."""
    d = (str(o), o._get_type(), o._is_repeatable(), o.__class__.__name__)
    if hasattr(o, '_get_verbose_pattern'):
        d += (o._get_verbose_pattern(),)
    return d


def build(expr):
    return eval(expr, NS)


def atom(expr, lit=None):
    return S(expr, build(expr), 'atom', lit)


def safe_atoms(pairs, run=None):
    """builds the atoms; one that cannot be built is itself a violation (every atom is a valid expression)"""
    from .common import V
    out = []
    for expr, l in pairs:
        try:
            out.append(atom(expr, l))
        except Exception as e:  # noqa: BLE001
            if run is not None:
                run.add([V(f'{run.pid}|atom|{expr}|raised:{type(e).__name__}',
                           f"{expr} is a valid expression but raised {type(e).__name__}: {str(e)[:100]}", 'r = ' + expr)])
    return out


def lit_atom(s):
    return atom('Pregex(%r)' % s, lit=s)


# ----------------------------------------------------------------------------------
# operations
# ----------------------------------------------------------------------------------
class Op:
    """name: canonical name; params: tuple; arity 1 or 2;
    spellings: list of (label, python expression template over {0},{1});
    ref(texts...) -> reference regex text | ('same', i) | None (model decided elsewhere)."""
    __slots__ = ('name', 'params', 'arity', 'spellings', 'ref', 'family', 'strpos')

    def __init__(self, name, params, arity, spellings, ref, family, strpos=()):
        self.name, self.params, self.arity = name, params, arity
        self.spellings, self.ref, self.family = spellings, ref, family
        self.strpos = strpos

    def label(self):
        return self.name + (repr(self.params) if self.params else '')


def g(t):
    return '(?:' + t + ')'


def _q(lo, hi, lazy):
    """reference builder of a quantifier with the documented identities."""
    def ref(x):
        if x == '':
            return ''
        if hi is not None and lo == hi:
            if lo == 0:
                return ''
            if lo == 1:
                return g(x)
            return g(x) + '{%d}' % lo
        return g(x) + '{%d,%s}' % (lo, '' if hi is None else hi) + ('?' if lazy else '')
    return ref


def quantifier_ops(full=True):
    ops = []
    gs = (True, False)
    for gr in gs:
        ops.append(Op('optional', (gr,), 1,
                      [('method', '({0}).optional(%r)' % gr), ('class', 'Optional({0}, %r)' % gr)],
                      _q(0, 1, not gr), 'quant'))
        ops.append(Op('indefinite', (gr,), 1,
                      [('method', '({0}).indefinite(%r)' % gr), ('class', 'Indefinite({0}, %r)' % gr)],
                      _q(0, None, not gr), 'quant'))
        ops.append(Op('one_or_more', (gr,), 1,
                      [('method', '({0}).one_or_more(%r)' % gr), ('class', 'OneOrMore({0}, %r)' % gr)],
                      _q(1, None, not gr), 'quant'))
    ns = (0, 1, 2, 3) if full else (0, 1, 2)
    for n in ns:
        ops.append(Op('exactly', (n,), 1,
                      [('method', '({0}).exactly(%d)' % n), ('class', 'Exactly({0}, %d)' % n)]
                      + ([('mul', '({0}) * %d' % n), ('rmul', '%d * ({0})' % n)]),
                      _q(n, n, False), 'quant'))
    for gr in gs:
        for n in ns:
            ops.append(Op('at_least', (n, gr), 1,
                          [('method', '({0}).at_least(%d, %r)' % (n, gr)), ('class', 'AtLeast({0}, %d, %r)' % (n, gr))],
                          _q(n, None, not gr), 'quant'))
        for n in ns + (None,):
            ops.append(Op('at_most', (n, gr), 1,
                          [('method', '({0}).at_most(%r, %r)' % (n, gr)), ('class', 'AtMost({0}, %r, %r)' % (n, gr))],
                          _q(0, n, not gr), 'quant'))
        for n in ns:
            for m in ns + (None,):
                if m is not None and m < n:
                    continue
                ops.append(Op('at_least_at_most', (n, m, gr), 1,
                              [('method', '({0}).at_least_at_most(%r, %r, %r)' % (n, m, gr)),
                               ('class', 'AtLeastAtMost({0}, %r, %r, %r)' % (n, m, gr))],
                              _q(n, m, not gr), 'quant'))
    return ops


def core_quantifier_ops():
    sel = {('optional', (True,)), ('indefinite', (False,)), ('one_or_more', (True,)),
           ('exactly', (2,)), ('exactly', (0,)), ('exactly', (1,)), ('at_least', (2, True)),
           ('at_most', (3, False)), ('at_least_at_most', (1, 3, True)), ('at_least_at_most', (2, 3, False))}
    return [o for o in quantifier_ops() if (o.name, o.params) in sel]


def group_ops():
    return [
        Op('capture', (None,), 1, [('method', '({0}).capture()'), ('class', 'Capture({0})')], None, 'group'),
        Op('capture', ('x',), 1, [('method', "({0}).capture('x')"), ('class', "Capture({0}, 'x')")], None, 'group'),
        Op('group', (False,), 1, [('method', '({0}).group()'), ('class', 'Group({0})')], None, 'group'),
        Op('group', (True,), 1, [('method', '({0}).group(True)'), ('class', 'Group({0}, True)')], None, 'group'),
    ]


def anchor_ops():
    return [
        Op('match_at_start', (), 1, [('method', '({0}).match_at_start()'), ('class', 'MatchAtStart({0})')],
           lambda x: r'\A' + g(x), 'anchor'),
        Op('match_at_end', (), 1, [('method', '({0}).match_at_end()'), ('class', 'MatchAtEnd({0})')],
           lambda x: g(x) + r'\Z', 'anchor'),
        Op('match_at_line_start', (), 1,
           [('method', '({0}).match_at_line_start()'), ('class', 'MatchAtLineStart({0})')],
           lambda x: '^' + g(x), 'anchor'),
        Op('match_at_line_end', (), 1,
           [('method', '({0}).match_at_line_end()'), ('class', 'MatchAtLineEnd({0})')],
           lambda x: g(x) + '$', 'anchor'),
    ]


def _either_ref(x, y):
    if y == '':
        return x
    if x == '':
        return None          # empty *first* alternative: left open by the documentation
    return g(x) + '|' + g(y)


def _look(pos_fmt):
    def ref(x, y):
        if y == '':
            return ('empty-assertion',)
        return pos_fmt.format(x=g(x), y=y)
    return ref


def binary_ops():
    return [
        Op('concat', (), 2,
           [('method', '({0}).concat({1})'), ('class', 'Concat({0}, {1})'), ('add', '({0}) + ({1})'),
            ('left', '({1}).concat({0}, on_right=False)')],
           lambda x, y: (g(x) if x != '' else '') + (g(y) if y != '' else ''), 'concat', strpos=(0, 1)),
        Op('either', (), 2,
           [('method', '({0}).either({1})'), ('class', 'Either({0}, {1})'),
            ('left', '({1}).either({0}, on_right=False)')],
           _either_ref, 'either', strpos=(0, 1)),
        Op('enclose', (), 2,
           [('method', '({0}).enclose({1})'), ('class', 'Enclose({0}, {1})')],
           lambda x, y: (g(y) if y != '' else '') + (g(x) if x != '' else '') + (g(y) if y != '' else ''),
           'enclose', strpos=(0, 1)),
        Op('followed_by', (), 2,
           [('method', '({0}).followed_by({1})'), ('class', 'FollowedBy({0}, {1})')],
           _look('{x}(?={y})'), 'lookahead', strpos=(0, 1)),
        Op('not_followed_by', (), 2,
           [('method', '({0}).not_followed_by({1})'), ('class', 'NotFollowedBy({0}, {1})')],
           _look('{x}(?!{y})'), 'neglookahead', strpos=(0, 1)),
        Op('preceded_by', (), 2,
           [('method', '({0}).preceded_by({1})'), ('class', 'PrecededBy({0}, {1})')],
           _look('(?<={y}){x}'), 'lookbehind', strpos=(0, 1)),
        Op('not_preceded_by', (), 2,
           [('method', '({0}).not_preceded_by({1})'), ('class', 'NotPrecededBy({0}, {1})')],
           _look('(?<!{y}){x}'), 'neglookbehind', strpos=(0, 1)),
        Op('enclosed_by', (), 2,
           [('method', '({0}).enclosed_by({1})'), ('class', 'EnclosedBy({0}, {1})')],
           _look('(?<={y}){x}(?={y})'), 'lookbehind', strpos=(0, 1)),
        Op('not_enclosed_by', (), 2,
           [('method', '({0}).not_enclosed_by({1})'), ('class', 'NotEnclosedBy({0}, {1})')],
           _look('(?<!{y}){x}(?!{y})'), 'neglookbehind', strpos=(0, 1)),
    ]


def cond_ops():
    """Conditional('n', x) and Conditional('n', x, y): operands are patterns like everywhere else"""
    return [
        Op('conditional', (), 1, [('class', "Conditional('n', {0})")],
           lambda x: '(?(n)' + g(x) + ')', 'cond'),
        Op('conditional2', (), 2, [('class', "Conditional('n', {0}, {1})")],
           lambda x, y: '(?(n)' + g(x) + '|' + g(y) + ')', 'cond', strpos=()),
    ]


ASSERTION_OPS = {'match_at_start', 'match_at_end', 'match_at_line_start', 'match_at_line_end',
                 'followed_by', 'preceded_by', 'enclosed_by'}


# ----------------------------------------------------------------------------------
# executing one transition
# ----------------------------------------------------------------------------------
class Tr:
    __slots__ = ('op', 'operands', 'outcomes', 'result', 'exc', 'ref', 'before', 'after', 'expr')


_CODE = {}
_RUN_NS = dict(NS)


def _run(expr_src, objs):
    """evaluate one spelling on the *shared* operand objects"""
    ns = _RUN_NS
    ns['_o0'] = objs[0]
    ns['_o1'] = objs[1] if len(objs) > 1 else None
    code = _CODE.get(expr_src)
    if code is None:
        code = _CODE[expr_src] = compile(expr_src, '<spelling>', 'eval')
    try:
        return ('ok', eval(code, ns))
    except RecursionError as e:
        return ('raise', e)
    except Exception as e:  # noqa: BLE001 - the monitors decide what is acceptable
        return ('raise', e)


def apply(op, operands):
    """Applies op (all spellings) to the operand states -> Tr."""
    tr = Tr()
    tr.op, tr.operands = op, operands
    objs = [s.obj for s in operands]
    tr.before = [snapshot(o) for o in objs]
    outs = []
    for label, tmpl in op.spellings:
        src = tmpl.format('_o0', '_o1')
        outs.append((label, _run(src, objs)))
    # raw-str spellings for literal operands
    for pos in op.strpos:
        if pos < len(operands) and operands[pos].lit is not None and op.arity == 2:
            # only the positions that accept str: argument of a method / any class argument
            tmpl = op.spellings[1][1] if len(op.spellings) > 1 else None
            if tmpl is not None:
                names = ['_o0', '_o1']
                names[pos] = repr(operands[pos].lit)
                outs.append(('class-str%d' % pos, _run(tmpl.format(*names), objs)))
            if pos == 1:
                names = ['_o0', repr(operands[1].lit)]
                outs.append(('method-str', _run(op.spellings[0][1].format(*names), objs)))
                if op.name == 'concat':
                    outs.append(('add-str', _run('_o0 + %r' % operands[1].lit, objs)))
            if pos == 0 and op.name == 'concat' and operands[1].lit is None:
                outs.append(('radd-str', _run('%r + _o1' % operands[0].lit, objs)))
    tr.after = [snapshot(o) for o in objs]
    tr.outcomes = outs
    kind, val = outs[0][1]
    tr.result = val if kind == 'ok' else None
    tr.exc = val if kind == 'raise' else None
    texts = [s.text for s in operands]
    tr.ref = op.ref(*texts) if op.ref is not None else None
    tr.expr = op.spellings[0][1].format(*[s.expr for s in operands])
    return tr


def successor(tr):
    """The state reached by a successful transition (None if it raised)."""
    if tr.result is None:
        return None
    alias = any(tr.result is s.obj for s in tr.operands)
    return S(tr.expr, tr.result, tr.op.name, None, max(s.depth for s in tr.operands) + 1, alias)


def outcome_sig(o):
    kind, val = o
    if kind == 'ok':
        return ('ok', str(val))
    return ('raise', type(val).__name__)


def is_lib_exc(e):
    return type(e).__module__ == 'pregex.core.exceptions'


def setup_worker():
    sys.setrecursionlimit(400)


def recheck_recursion(expr):
    """A RecursionError is only believed when it also happens with the default limit."""
    old = sys.getrecursionlimit()
    sys.setrecursionlimit(1000)
    try:
        build(expr)
        return False
    except RecursionError:
        return True
    except Exception:  # noqa: BLE001
        return False
    finally:
        sys.setrecursionlimit(old)
