"""python -m mc.replay <replay.json>: re-executes a violation's snippet against the real library in a
fresh interpreter, without the explorer and without the set-order seam, under the PYTHONHASHSEED
recorded in the file.  Exit 1 if the snippet still fails (defect present), 0 if it runs clean."""
import json
import os
import subprocess
import sys

CODE = r"""
import json, sys, traceback
from mc import env
rec = json.load(open(sys.argv[1], encoding='utf-8'))
ns = dict(env.NS)
try:
    exec(rec['code'], ns)
except BaseException:
    traceback.print_exc()
    print('REPLAY: still fails')
    sys.exit(1)
print('REPLAY: runs clean')
"""


VCODE = r"""
import json, sys
from mc import env
rec = json.load(open(sys.argv[1], encoding='utf-8'))
ns = dict(env.NS)
try:
    exec(rec['value_code'], ns)
    print('VALUE ' + repr(ns.get('OUT')))
except BaseException as e:
    print('VALUE EXC:' + type(e).__name__)
"""


def main():
    path = sys.argv[1]
    rec = json.load(open(path, encoding='utf-8'))
    if rec.get('value_code'):
        return replay_value(path, rec)
    print('property :', rec.get('property'))
    print('key      :', rec.get('key'))
    print('what     :', rec.get('what'))
    print('hashseed :', rec.get('hashseed', 0))
    print('--- snippet ---')
    print(rec['code'])
    print('---------------')
    here = os.path.dirname(os.path.dirname(os.path.abspath(__file__)))
    e = dict(os.environ)
    e.update({'PYTHONHASHSEED': str(rec.get('hashseed', 0)), 'PREGEX_VERIF_VSET': '0', 'PYTHONPATH': here,
              'PYTHONWARNINGS': 'ignore', 'PYTHONDONTWRITEBYTECODE': '1'})
    return subprocess.run([sys.executable, '-c', CODE, path], env=e, cwd=here).returncode


def replay_value(path, rec):
    """the violation says: this value differs between two interpreter configurations"""
    print('property :', rec.get('property'))
    print('key      :', rec.get('key'))
    print('what     :', rec.get('what'))
    print('--- value ---')
    print(rec['value_code'])
    here = os.path.dirname(os.path.dirname(os.path.abspath(__file__)))
    vals = []
    for seed in rec.get('hashseeds', [0, 1]):
        e = dict(os.environ)
        e.update({'PYTHONHASHSEED': str(seed), 'PREGEX_VERIF_VSET': '0', 'PYTHONPATH': here, 'PYTHONWARNINGS': 'ignore',
                  'PYTHONDONTWRITEBYTECODE': '1'})
        r = subprocess.run([sys.executable, '-c', VCODE, path], env=e, cwd=here, capture_output=True, text=True)
        v = [l for l in r.stdout.splitlines() if l.startswith('VALUE ')]
        vals.append(v[-1] if v else r.stderr[-200:])
        print(f'PYTHONHASHSEED={seed}: {vals[-1][:300]}')
    if len(set(vals)) > 1:
        print('REPLAY: still fails (the value depends on the hash seed)')
        return 1
    print('REPLAY: runs clean')
    return 0


if __name__ == '__main__':
    sys.exit(main())
