"""python -m mc.replay <replay.json>: re-executes a violation's snippet against the real library,
without the explorer.  Exit 1 if the snippet still fails (defect present), 0 if it runs clean."""
import json
import sys
import traceback


def main():
    from . import env
    rec = json.load(open(sys.argv[1], encoding='utf-8'))
    print('property :', rec.get('property'))
    print('key      :', rec.get('key'))
    print('what     :', rec.get('what'))
    print('--- snippet ---')
    print(rec['code'])
    print('---------------')
    ns = dict(env.NS)
    try:
        exec(rec['code'], ns)
    except BaseException:  # noqa: BLE001
        traceback.print_exc()
        print('REPLAY: still fails')
        return 1
    print('REPLAY: runs clean')
    return 0


if __name__ == '__main__':
    sys.exit(main())
