"""python -m mc.replay <replay.json>: re-executes a violation's snippet against the real library in a
fresh interpreter, without the explorer and without the set-order seam, under the PYTHONHASHSEED
recorded in the file.  Exit 1 if the snippet still fails (defect present), 0 if it runs clean."""
import json
import os
import subprocess
import sys

CODE = r"""
import json, sys, traceback
from mc import env
rec = json.load(open(sys.argv[1], encoding='utf-8'))
ns = dict(env.NS)
try:
    exec(rec['code'], ns)
except BaseException:
    traceback.print_exc()
    print('REPLAY: still fails')
    sys.exit(1)
print('REPLAY: runs clean')
"""


def main():
    path = sys.argv[1]
    rec = json.load(open(path, encoding='utf-8'))
    print('property :', rec.get('property'))
    print('key      :', rec.get('key'))
    print('what     :', rec.get('what'))
    print('hashseed :', rec.get('hashseed', 0))
    print('--- snippet ---')
    print(rec['code'])
    print('---------------')
    here = os.path.dirname(os.path.dirname(os.path.abspath(__file__)))
    e = dict(os.environ)
    e.update({'PYTHONHASHSEED': str(rec.get('hashseed', 0)), 'PREGEX_VERIF_VSET': '0', 'PYTHONPATH': here,
              'PYTHONWARNINGS': 'ignore', 'PYTHONDONTWRITEBYTECODE': '1'})
    return subprocess.run([sys.executable, '-c', CODE, path], env=e, cwd=here).returncode


if __name__ == '__main__':
    sys.exit(main())
