"""Level-synchronous breadth-first search over the DSL value graph, fanned out over a
process pool.  Monitors judge every transition locally (see dsl.py)."""
import hashlib
import struct

from . import dsl, rx, common

_CFG = {}


class Level:
    """One BFS level: every root state gets all `unary` ops, and all `binary` ops paired with
    every partner atom on the sides listed in `sides` (0: root is the left/main operand,
    1: root is the right/secondary operand)."""

    def __init__(self, unary=(), binary=(), partners=(), sides=(0, 1), name=''):
        self.unary, self.binary, self.partners, self.sides, self.name = \
            list(unary), list(binary), list(partners), tuple(sides), name


def h64(key):
    return struct.unpack('<Q', hashlib.blake2b(repr(key).encode('utf-8', 'surrogatepass'), digest_size=8).digest())[0]


def desc(s):
    return (s.expr, s.lit, s.origin, s.depth, s.alias)


def undesc(d):
    expr, lit, origin, depth, alias = d
    return dsl.S(expr, dsl.build(expr), origin, lit, depth, alias)


class Acc:
    """what one worker task returns"""

    def __init__(self):
        self.viol = []
        self.counts = {}
        self.succ = []
        self.hashes = set()
        self.samples = []
        self.outcomes = set()

    def count(self, k, n=1):
        self.counts[k] = self.counts.get(k, 0) + n


def _transitions(root, level, partners):
    for op in level.unary:
        yield op, [root]
    for op in level.binary:
        for p in partners:
            if 0 in level.sides:
                yield op, [root, p]
            if 1 in level.sides:
                yield op, [p, root]


def _do_level(acc, roots, li, seen_local):
    levels, monitors = _CFG['levels'], _CFG['monitors']
    level = levels[li]
    partners = _CFG['partner_states'][li]
    nested = _CFG['nested_tail'] and li + 1 == len(levels) - 1
    want_succ = (li + 1 < len(levels)) and not nested
    unary_srcs = [op.spellings[0][1].format('x') for op in level.unary]
    for root in roots:
        firsts = []
        for op, operands in _transitions(root, level, partners):
            tr = dsl.apply(op, operands)
            if len(operands) == 1 or (len(firsts) < len(level.unary) + 4 and operands[0] is root):
                firsts.append((op, operands, dsl.outcome_sig(tr.outcomes[0][1])))
            acc.count('transitions')
            acc.count('executions', len(tr.outcomes))
            succ = dsl.successor(tr)
            for m in monitors:
                m.on_transition(tr, succ, acc)
            if succ is None:
                acc.outcomes.add('raise:' + type(tr.exc).__name__)
                continue
            acc.outcomes.add('ok')
            if not rx.compiles(succ.text)[0]:
                # reported by C02/C03 at this transition; nothing sensible can be built on top of it
                acc.count('uncompilable_states_not_expanded')
                continue
            k = succ.key()
            hk = h64(k)
            if hk in seen_local:
                continue
            seen_local.add(hk)
            if _CFG['tail_level'] == li:
                acc.count('tail_states_local')
            else:
                acc.hashes.add(hk)
            if len(acc.samples) < 3:
                acc.samples.append({'expr': succ.expr, 'pattern': succ.text})
            if want_succ:
                acc.succ.append((hk, desc(succ)))
            elif nested:
                _do_level(acc, [succ], li + 1, seen_local)
        # purity re-check: the same call on the same (by now much used) object must give the same result again
        for op, operands, sig in firsts:
            again = dsl.outcome_sig(dsl._run(op.spellings[0][1].format('_o0', '_o1'), [s.obj for s in operands]))
            acc.count('purity_rechecks')
            if again != sig:
                for m in monitors:
                    m.on_impure(root, op, operands, sig, again, unary_srcs, acc)


def _task(arg):
    li, descs = arg
    dsl.setup_worker()
    acc = Acc()
    roots = [undesc(d) for d in descs]
    _do_level(acc, roots, li, set())
    return acc


def run(atoms, levels, monitors, nested_tail=False, chunk=None, procs=None):
    """atoms: list of dsl.S.  Returns a dict with merged results."""
    _CFG['levels'] = levels
    _CFG['monitors'] = monitors
    _CFG['nested_tail'] = nested_tail
    _CFG['tail_level'] = (len(levels) - 1) if (nested_tail and len(levels) > 1) else -1
    # atoms whose own text re rejects are defects of their constructor (C03/C06); nothing is built on them
    dropped = [a.expr for a in atoms if not rx.compiles(a.text)[0]]
    atoms = [a for a in atoms if rx.compiles(a.text)[0]]
    _CFG['partner_states'] = [[a for a in dsl.safe_atoms(lv.partners) if rx.compiles(a.text)[0]] for lv in levels]
    total = Acc()
    states = {}
    for a in atoms:
        states.setdefault(h64(a.key()), desc(a))
    per_depth = [len(states)]
    frontier = list(states.values())
    all_hashes = set(states)
    stop_at = len(levels) - (1 if nested_tail and len(levels) > 1 else 0)
    first_frontier = {}
    for li in range(stop_at):
        if not frontier:
            break
        n = chunk or max(1, min(200, len(frontier) // (4 * common.NPROC) + 1))
        tasks = [(li, c) for c in common.chunks(frontier, n)]
        results = common.pmap(_task, tasks, procs)
        new = {}
        for acc in results:
            total.viol.extend(acc.viol)
            for k, v in acc.counts.items():
                total.counts[k] = total.counts.get(k, 0) + v
            total.outcomes |= acc.outcomes
            if len(total.samples) < 12:
                total.samples.extend(acc.samples[:2])
            for hk, d in acc.succ:
                if hk not in all_hashes and hk not in new:
                    new[hk] = d
            fresh = acc.hashes - all_hashes
            all_hashes |= fresh
        per_depth.append(len(all_hashes) - sum(per_depth))
        frontier = list(new.values())
        if li == 0:
            first_frontier = dict(new)
    return {
        'atoms_dropped_uncompilable': dropped,
        'frontier': first_frontier,
        'hashes': all_hashes,
        'violations': total.viol,
        'counts': total.counts,
        'states': len(all_hashes),
        'states_per_level': per_depth,
        'samples': total.samples,
        'outcomes': sorted(total.outcomes),
    }
