"""Model-checking machinery for manoss96/pregex (see /verif/DESIGN.md)."""
