"""Binds the checks to the *working tree* of the repository.

Importing this module puts <repo>/src first on sys.path, silences the
SyntaxWarnings that pregex's own docstrings raise when byte-compiled, and
asserts that the pregex package that got imported really is the one in the
working tree (never an installed copy, never a stale .pyc elsewhere).
"""
import os
import sys
import warnings

sys.dont_write_bytecode = True
warnings.filterwarnings('ignore', category=SyntaxWarning)
warnings.filterwarnings('ignore', category=DeprecationWarning)
warnings.filterwarnings('ignore', category=FutureWarning)

VERIF = os.path.dirname(os.path.dirname(os.path.abspath(__file__)))
REPO_SRC = os.path.realpath(os.environ.get('PREGEX_VERIF_SRC', '/repo/src'))
# reserved guard for source hooks (none is needed, see DESIGN.md 1.3)
os.environ.setdefault('PREGEX_VERIF', '1')

if sys.path[0] != REPO_SRC:
    sys.path.insert(0, REPO_SRC)

import pregex  # noqa: E402
import pregex.core.pre as pre  # noqa: E402
import pregex.core.classes as classes  # noqa: E402
import pregex.core.tokens as tokens  # noqa: E402
import pregex.core.groups as groups  # noqa: E402
import pregex.core.operators as operators  # noqa: E402
import pregex.core.quantifiers as quantifiers  # noqa: E402
import pregex.core.assertions as assertions  # noqa: E402
import pregex.core.exceptions as exceptions  # noqa: E402
import pregex.meta.essentials as essentials  # noqa: E402

_where = os.path.realpath(pregex.__file__)
if not _where.startswith(REPO_SRC + os.sep):
    sys.stderr.write(f"INTERNAL: pregex imported from {_where}, expected under {REPO_SRC}\n")
    sys.exit(2)


from . import vset as _vset  # noqa: E402
VSET_ACTIVE = _vset.install(classes)


class IntSub(int):
    """an integer that is not exactly of type int (like enum.IntEnum members): a legal value wherever an int is documented"""

    def __repr__(self):
        return 'IntSub(%s)' % int.__repr__(self)

    def __str__(self):
        return int.__repr__(self)


class StrSub(str):
    """a string that is not exactly of type str: a legal value wherever a str is documented"""

    def __repr__(self):
        return 'StrSub(%s)' % str.__repr__(self)


def namespace():
    """A namespace in which recipes (python expressions) are evaluated."""
    ns = {}
    for mod in (classes, tokens, groups, operators, quantifiers, assertions, essentials):
        for name in dir(mod):
            if not name.startswith('_'):
                ns[name] = getattr(mod, name)
    ns['Pregex'] = pre.Pregex
    ns['IntSub'] = IntSub
    ns['StrSub'] = StrSub
    ns['pre'] = pre
    ns['ex'] = exceptions
    for name in dir(exceptions):
        if name.endswith('Exception'):
            ns[name] = getattr(exceptions, name)
    return ns


NS = namespace()
FLAGS = 24  # re.MULTILINE | re.DOTALL, the library's documented flags
