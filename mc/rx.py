"""Deciding regex equivalence without sampling (DESIGN.md 1.1).

parse()  : text -> normal-form tree (via CPython's own re._parser, the trusted reader of
           regex syntax), or raises re.error
render() : normal-form tree -> regex text (my own unparser; shares nothing with pregex)
lit()    : reference rendering of a literal string
equiv()  : (A, B) -> ('tree'|'texts', None) if equivalent, ('diff', witness) if not

Normal form trees are nested tuples:
  ('lit', cp) ('any',) ('set', neg, items) ('seq', *xs) ('alt', *xs)
  ('rep', lo, hi|None, lazy, x) ('cap', idx, name|None, x) ('flag', add, del, x)
  ('at', kind) ('look', dir, neg, x) ('ref', kind, val) ('cond', kind, val, yes, no|None)
"""
import itertools
import re
import re._parser as sp
import re._constants as sc
from functools import lru_cache

FLAGS = re.MULTILINE | re.DOTALL

# harness context for patterns that refer to groups defined elsewhere
CTX = r'(?:(q)|(?P<n>r)|(?P<m>s))*'
CTX_GROUPS = 3
CTX_NAMES = {2: 'n', 3: 'm'}


class Unparsable(Exception):
    pass


def _items_norm(items):
    """items of an IN node -> (neg, normalized tuple)."""
    neg = False
    ranges, cats = [], set()
    for op, av in items:
        if op is sc.NEGATE:
            neg = True
        elif op is sc.LITERAL:
            ranges.append((av, av))
        elif op is sc.RANGE:
            ranges.append((av[0], av[1]))
        elif op is sc.CATEGORY:
            cats.add(str(av))
        else:
            raise Unparsable(f'unexpected set item {op}')
    ranges.sort()
    merged = []
    for lo, hi in ranges:
        if merged and lo <= merged[-1][1] + 1:
            merged[-1][1] = max(merged[-1][1], hi)
        else:
            merged.append([lo, hi])
    return neg, tuple([('r', a, b) for a, b in merged] + [('cat', c) for c in sorted(cats)])


def _conv(sub, state, inctx):
    out = []
    for op, av in sub:
        if op is sc.LITERAL:
            out.append(('lit', av))
        elif op is sc.NOT_LITERAL:
            out.append(('set', True, (('r', av, av),)))
        elif op is sc.ANY:
            out.append(('any',))
        elif op is sc.IN:
            neg, items = _items_norm(av)
            if not neg and len(items) == 1 and items[0][0] == 'r' and items[0][1] == items[0][2]:
                out.append(('lit', items[0][1]))
            else:
                out.append(('set', neg, items))
        elif op is sc.BRANCH:
            branches = []
            for b in av[1]:
                t = _seq(_conv(b, state, inctx))
                if t[0] == 'alt':
                    branches.extend(t[1:])
                else:
                    branches.append(t)
            out.append(('alt',) + tuple(branches))
        elif op in (sc.MAX_REPEAT, sc.MIN_REPEAT):
            lo, hi, body = av
            out.append(('rep', lo, None if hi == sc.MAXREPEAT else hi, op is sc.MIN_REPEAT,
                        _seq(_conv(body, state, inctx))))
        elif op is sc.POSSESSIVE_REPEAT:
            lo, hi, body = av
            out.append(('prep', lo, None if hi == sc.MAXREPEAT else hi, _seq(_conv(body, state, inctx))))
        elif op is sc.ATOMIC_GROUP:
            out.append(('atomic', _seq(_conv(av, state, inctx))))
        elif op is sc.SUBPATTERN:
            group, add, dele, body = av
            b = _seq(_conv(body, state, inctx))
            if group is None:
                if add or dele:
                    out.append(('flag', add, dele, b))
                else:
                    out.extend(b[1:] if b[0] == 'seq' else [b])
            else:
                name = None
                for k, v in state.groupdict.items():
                    if v == group:
                        name = k
                idx = group - CTX_GROUPS if inctx else group
                out.append(('cap', idx, name, b))
        elif op is sc.AT:
            out.append(('at', str(av)))
        elif op in (sc.ASSERT, sc.ASSERT_NOT):
            d, body = av
            out.append(('look', d, op is sc.ASSERT_NOT, _seq(_conv(body, state, inctx))))
        elif op is sc.GROUPREF:
            out.append(('ref',) + _refkind(av, inctx))
        elif op is sc.GROUPREF_EXISTS:
            g, yes, no = av
            out.append(('cond',) + _refkind(g, inctx) + (
                _seq(_conv(yes, state, inctx)), None if no is None else _seq(_conv(no, state, inctx))))
        else:
            raise Unparsable(f'unexpected node {op}')
    return out


def _refkind(g, inctx):
    if inctx:
        if g in CTX_NAMES:
            return ('name', CTX_NAMES[g])
        if g <= CTX_GROUPS:
            return ('num', g)
        return ('own', g - CTX_GROUPS)
    return ('own', g)


def _seq(xs):
    flat = []
    for x in xs:
        if x[0] == 'seq':
            flat.extend(x[1:])
        else:
            flat.append(x)
    if len(flat) == 1:
        return flat[0]
    return ('seq',) + tuple(flat)


class Parsed:
    __slots__ = ('tree', 'inctx', 'ngroups', 'names', 'width')

    def __init__(self, tree, inctx, ngroups, names, width):
        self.tree, self.inctx, self.ngroups, self.names, self.width = tree, inctx, ngroups, names, width


def _parse_raw(text, inctx):
    src = (CTX + '(?:' + text + ')') if inctx else text
    p = sp.parse(src, FLAGS)
    state = p.state
    data = list(p)
    if inctx:
        # first node is the context repeat; the rest is the operand (inlined group)
        data = data[1:]
    tree = _seq(_conv(data, state, inctx))
    ngroups = state.groups - 1 - (CTX_GROUPS if inctx else 0)
    names = {k: (v - CTX_GROUPS if inctx else v) for k, v in state.groupdict.items()
             if not (inctx and v <= CTX_GROUPS)}
    # width of the operand only
    sub = sp.SubPattern(state, data)
    try:
        width = sub.getwidth()
    except Exception:
        width = None
    return Parsed(tree, inctx, ngroups, names, width)


@lru_cache(maxsize=200000)
def parse(text, ctx=None):
    """ctx=None: try plain, fall back to the harness context.  ctx=True/False forces."""
    if ctx is None:
        try:
            return _parse_raw(text, False)
        except re.error:
            return _parse_raw(text, True)
        except RecursionError:
            raise re.error('parser recursion')
    try:
        return _parse_raw(text, ctx)
    except RecursionError:
        raise re.error('parser recursion')


@lru_cache(maxsize=200000)
def compiles(text):
    """(ok, needs_ctx).  ok is True if the text compiles on its own or inside the context."""
    try:
        re.compile(text, FLAGS)
        return True, False
    except re.error:
        pass
    except RecursionError:
        return False, False
    try:
        re.compile(CTX + '(?:' + text + ')', FLAGS)
        return True, True
    except (re.error, RecursionError):
        return False, False


@lru_cache(maxsize=100000)
def compile_error(text):
    """None if the text compiles (alone or in the reference context), else re's message."""
    msg = None
    for src in (text, CTX + '(?:' + text + ')'):
        try:
            re.compile(src, FLAGS)
            return None
        except re.error as e:
            msg = str(e)
        except RecursionError:
            msg = 'RecursionError'
    return msg


def has_ref(t):
    if t[0] in ('ref', 'cond'):
        return True
    return any(isinstance(x, tuple) and has_ref(x) for x in t[1:])


def inherent_failure(ref, operand_texts):
    """True if the *reference composition* of the operands is itself not a regex for a reason the
    caller is responsible for: duplicate group names, references the expression cannot resolve, or a
    lookbehind whose width depends on such a reference."""
    if not isinstance(ref, str):
        return False
    err = compile_error(ref)
    if err is None:
        return False
    if 'fixed-width' not in err:
        return True
    for t in operand_texts:
        try:
            if has_ref(parse(t).tree):
                return True
        except re.error:
            return True
    return False


# ----------------------------------------------------------------------------------
# rendering
# ----------------------------------------------------------------------------------
def _cp(c):
    if (48 <= c <= 57) or (65 <= c <= 90) or (97 <= c <= 122):
        return chr(c)
    if c < 0x100:
        return '\\x%02x' % c
    if c < 0x10000:
        return '\\u%04x' % c
    return '\\U%08x' % c


def lit(s):
    """Reference regex for the literal string s (every operand its own escape)."""
    return ''.join(_cp(ord(ch)) for ch in s)


_CAT = {'CATEGORY_DIGIT': r'\d', 'CATEGORY_NOT_DIGIT': r'\D', 'CATEGORY_SPACE': r'\s',
        'CATEGORY_NOT_SPACE': r'\S', 'CATEGORY_WORD': r'\w', 'CATEGORY_NOT_WORD': r'\W'}
_AT = {'AT_BEGINNING': '^', 'AT_END': '$', 'AT_BEGINNING_STRING': r'\A', 'AT_END_STRING': r'\Z',
       'AT_BOUNDARY': r'\b', 'AT_NON_BOUNDARY': r'\B'}


def render(t):
    k = t[0]
    if k == 'lit':
        return _cp(t[1])
    if k == 'any':
        return '.'
    if k == 'set':
        body = ''
        for it in t[2]:
            if it[0] == 'r':
                body += _cp(it[1]) if it[1] == it[2] else _cp(it[1]) + '-' + _cp(it[2])
            else:
                body += _CAT[it[1]]
        return '[' + ('^' if t[1] else '') + body + ']'
    if k == 'seq':
        return ''.join('(?:' + render(x) + ')' if x[0] == 'alt' else render(x) for x in t[1:])
    if k == 'alt':
        return '|'.join(render(x) for x in t[1:])
    if k == 'rep':
        lo, hi, lazy, x = t[1:]
        return '(?:' + render(x) + '){' + str(lo) + ',' + ('' if hi is None else str(hi)) + '}' + ('?' if lazy else '')
    if k == 'cap':
        return ('(?P<%s>' % t[2] if t[2] else '(') + render(t[3]) + ')'
    if k == 'flag':
        add = 'i' if t[1] & re.IGNORECASE else ''
        if t[1] & ~re.IGNORECASE or t[2]:
            raise Unparsable('flag group beyond (?i:')
        return '(?' + add + ':' + render(t[3]) + ')'
    if k == 'at':
        return _AT[t[1]]
    if k == 'look':
        return '(?' + ('<' if t[1] < 0 else '') + ('!' if t[2] else '=') + render(t[3]) + ')'
    if k == 'ref':
        return '(?P=%s)' % t[2] if t[1] == 'name' else '(?:\\%d)' % t[2]
    if k == 'cond':
        ref = t[2]
        return '(?(%s)%s%s)' % (ref, _grp(t[3]), '' if t[4] is None else '|' + _grp(t[4]))
    raise Unparsable('cannot render ' + k)


def _grp(t):
    return '(?:' + render(t) + ')'


# ----------------------------------------------------------------------------------
# alphabet of a comparison and bounded-exhaustive texts
# ----------------------------------------------------------------------------------
def _collect(t, acc, look):
    k = t[0]
    if k == 'lit':
        acc.add(t[1])
    elif k == 'set':
        for it in t[2]:
            if it[0] == 'r':
                acc.add(it[1]); acc.add(it[2])
                if it[1] > 0:
                    look.add(it[1] - 1)
                if it[2] < 0x10ffff:
                    look.add(it[2] + 1)
            else:
                look.update((ord('5'), ord(' '), ord('w')))
    elif k == 'at':
        look.update((ord('\n'), ord(' '), ord('w')))
    else:
        for x in t[1:]:
            if isinstance(x, tuple):
                _collect(x, acc, look)


def has_flag(t):
    if t[0] == 'flag':
        return True
    return any(isinstance(x, tuple) and has_flag(x) for x in t[1:])


def alphabet(trees, limit=7):
    acc, look = set(), set()
    for t in trees:
        _collect(t, acc, look)
    if any(has_flag(t) for t in trees):
        for c in list(acc):
            ch = chr(c)
            acc.add(ord(ch.swapcase()[0]) if len(ch.swapcase()) == 1 else c)
    sigma = sorted(acc)
    # always one symbol that is in no literal/range end point
    extra = [c for c in sorted(look) if c not in acc]
    for c in (ord('\n'), ord('z'), ord('!')):
        if c not in acc and c not in extra:
            extra.append(c)
    out = sigma[:limit]
    for c in extra:
        if len(out) >= limit + 2:
            break
        if c not in out:
            out.append(c)
    if sigma[limit:]:
        # too many literals: keep the first `limit` plus the last one
        if sigma[-1] not in out:
            out.append(sigma[-1])
    return ''.join(chr(c) for c in out)


def texts(sigma, budget):
    """All strings over sigma of length <= L where L is the largest length with
    |sigma|^<=L <= budget (never below 3)."""
    n = len(sigma)
    L, total = 0, 1
    while True:
        nxt = total + n ** (L + 1)
        if nxt > budget and L >= 3:
            break
        total = nxt
        L += 1
        if L >= 8:
            break
    out = ['']
    for l in range(1, L + 1):
        out.extend(''.join(p) for p in itertools.product(sigma, repeat=l))
    return out, L


def behaviour(cre, text):
    return [(m.span(), m.groups()) for m in cre.finditer(text)]


def _compile(text, inctx):
    return re.compile((CTX + '(?:' + text + ')') if inctx else text, FLAGS)


def equiv(a, b, budget=1500, want_groups=True):
    """-> (verdict, detail): verdict in 'tree' | 'texts' | 'diff' | 'error_a' | 'error_b'."""
    try:
        pb = parse(b)
    except re.error as e:
        return 'error_b', str(e)
    try:
        pa = parse(a)
    except re.error as e:
        return 'error_a', str(e)
    inctx = pa.inctx or pb.inctx
    if pa.inctx != pb.inctx:
        try:
            pa, pb = parse(a, inctx), parse(b, inctx)
        except re.error as e:
            return 'diff', 'only one side needs the reference context: ' + str(e)
    if pa.tree == pb.tree:
        return 'tree', None
    try:
        cb = _compile(b, inctx)
    except (re.error, RecursionError) as e:
        return 'error_b', str(e)
    try:
        ca = _compile(a, inctx)
    except (re.error, RecursionError) as e:
        return 'error_a', str(e)
    if want_groups and (ca.groups != cb.groups or ca.groupindex != cb.groupindex):
        return 'diff', {'groups': (ca.groups, dict(ca.groupindex), cb.groups, dict(cb.groupindex))}
    sigma = alphabet([pa.tree, pb.tree])
    if inctx:
        sigma += ''.join(c for c in 'qr' if c not in sigma)
    ts, L = texts(sigma, budget)
    for t in ts:
        if want_groups:
            ra, rb = behaviour(ca, t), behaviour(cb, t)
        else:
            ra, rb = [m.span() for m in ca.finditer(t)], [m.span() for m in cb.finditer(t)]
        if ra != rb:
            return 'diff', {'text': t, 'a': ra, 'b': rb}
    # contextual equivalence: two patterns that match the same spans on their own can still differ in the *order* in which alternative
    # ends are tried (a lazy `a*?` and `(?:a+)??`), which shows as soon as something follows them.  A continuation that admits exactly
    # two end positions reveals the relative priority of those two; all pairs over the short texts reveal the whole order.
    short = [t for t in ts if len(t) <= 3]
    for x, y in ((0, 1), (0, 2), (1, 2), (0, 3), (1, 3), (2, 3)):
        tail = r'(?=(?:[\s\S]{%d}|[\s\S]{%d})\Z)' % (x, y)
        try:
            ka, kb = _compile('(?:%s)%s' % (a, tail), inctx), _compile('(?:%s)%s' % (b, tail), inctx)
        except (re.error, RecursionError):
            break
        for t in short:
            ra, rb = [m.span() for m in ka.finditer(t)], [m.span() for m in kb.finditer(t)]
            if ra != rb:
                return 'diff', {'text': t, 'continuation': tail, 'a': ra, 'b': rb}
    return 'texts', {'sigma': sigma, 'L': L, 'n': len(ts)}
