"""Denotations of character classes: exact sets of code points over the whole of Unicode,
as sorted disjoint interval lists, plus a mask of code points the property leaves open (the members
that only the Unicode-aware shorthands \\d \\s \\w add beyond their ASCII cores)."""
import re
import string
from functools import lru_cache

from . import rx

MAXCP = 0x10FFFF
ALL = ((0, MAXCP),)


def norm(iv):
    iv = sorted(iv)
    out = []
    for lo, hi in iv:
        if lo > hi:
            continue
        if out and lo <= out[-1][1] + 1:
            if hi > out[-1][1]:
                out[-1] = (out[-1][0], hi)
        else:
            out.append((lo, hi))
    return tuple(out)


def union(a, b):
    return norm(list(a) + list(b))


def compl(a):
    out, prev = [], 0
    for lo, hi in a:
        if lo > prev:
            out.append((prev, lo - 1))
        prev = hi + 1
    if prev <= MAXCP:
        out.append((prev, MAXCP))
    return tuple(out)


def inter(a, b):
    out, i, j = [], 0, 0
    while i < len(a) and j < len(b):
        lo, hi = max(a[i][0], b[j][0]), min(a[i][1], b[j][1])
        if lo <= hi:
            out.append((lo, hi))
        if a[i][1] < b[j][1]:
            i += 1
        else:
            j += 1
    return tuple(out)


def diff(a, b):
    return inter(a, compl(b))


def from_chars(chars):
    return norm([(ord(c), ord(c)) for c in chars])


def size(a):
    return sum(hi - lo + 1 for lo, hi in a)


def first_members(a, n=5):
    out = []
    for lo, hi in a:
        for c in range(lo, hi + 1):
            out.append(c)
            if len(out) >= n:
                return out
    return out


def show(a, n=6):
    return ', '.join(('U+%04X' % lo) if lo == hi else 'U+%04X-U+%04X' % (lo, hi) for lo, hi in a[:n]) + \
        (' ...' if len(a) > n else '')


_ALLTEXT = None


def alltext():
    global _ALLTEXT
    if _ALLTEXT is None:
        _ALLTEXT = ''.join(map(chr, range(MAXCP + 1)))
    return _ALLTEXT


def brute(text):
    """exact denotation of a one-character regex by running re over every code point"""
    cre = re.compile(text, rx.FLAGS)
    iv, start, prev = [], None, None
    for m in cre.finditer(alltext()):
        s, e = m.span()
        if e - s != 1:
            raise ValueError('pattern matches %d characters at %d' % (e - s, s))
        if start is None:
            start = prev = s
        elif s == prev + 1:
            prev = s
        else:
            iv.append((start, prev))
            start = prev = s
    if start is not None:
        iv.append((start, prev))
    return tuple(iv)


@lru_cache(maxsize=None)
def category(name):
    """(ascii core, unicode extras) of a shorthand"""
    core = {'CATEGORY_DIGIT': from_chars(string.digits),
            'CATEGORY_SPACE': from_chars(' \t\n\r\x0b\x0c'),
            'CATEGORY_WORD': from_chars(string.ascii_letters + string.digits + '_')}[name]
    pat = {'CATEGORY_DIGIT': r'\d', 'CATEGORY_SPACE': r'\s', 'CATEGORY_WORD': r'\w'}[name]
    full = brute(pat)
    return core, diff(full, core)


def of_tree(t):
    """-> (definite denotation, mask) of a normal-form tree that matches exactly one character"""
    if t[0] == 'lit':
        return ((t[1], t[1]),), ()
    if t[0] == 'any':
        return ALL, ()
    if t[0] != 'set':
        raise ValueError('not a single-character pattern: %r' % (t,))
    d, mask = [], ()
    for it in t[2]:
        if it[0] == 'r':
            d.append((it[1], it[2]))
        else:
            name = it[1]
            negated = '_NOT_' in name
            core, extras = category(name.replace('_NOT_', '_'))
            mask = union(mask, extras)
            if negated:
                d.extend(compl(union(core, extras)))
            else:
                d.extend(core)
    d = norm(d)
    if t[1]:
        d = compl(union(d, mask))
    d = diff(d, mask)
    return d, mask


def of_text(text):
    """-> (definite, mask) or raises re.error / ValueError"""
    return of_tree(rx.parse(text, False).tree)
