"""Regex normal-form tree -> NFA over a finite partition of the alphabet, and the explicit-state
product with a hand-written reference automaton (DESIGN.md 3, C18 / C17)."""
import string
from collections import deque

from . import den

ASCII_CAT = {
    'CATEGORY_DIGIT': den.from_chars(string.digits),
    'CATEGORY_SPACE': den.from_chars(' \t\n\r\x0b\x0c'),
    'CATEGORY_WORD': den.from_chars(string.ascii_letters + string.digits + '_'),
}


def node_set(t):
    """interval set of a single-character node (categories restricted to their ASCII core)"""
    if t[0] == 'lit':
        return ((t[1], t[1]),)
    if t[0] == 'any':
        return den.ALL
    d = []
    for it in t[2]:
        if it[0] == 'r':
            d.append((it[1], it[2]))
        else:
            name = it[1]
            core = ASCII_CAT[name.replace('_NOT_', '_')]
            d.extend(den.compl(core) if '_NOT_' in name else core)
    d = den.norm(d)
    return den.compl(d) if t[1] else d


def char_nodes(t, out):
    if t[0] in ('lit', 'set', 'any'):
        out.append(t)
    else:
        for x in t[1:]:
            if isinstance(x, tuple) and x and isinstance(x[0], str):
                char_nodes(x, out)


def partition(sets, extra_points=()):
    """coarsest partition of [0, MAXCP] into intervals respecting every set; extra_points are
    characters that must be cells of their own.  -> list of (lo, hi)"""
    cuts = {0, den.MAXCP + 1}
    for s in sets:
        for lo, hi in s:
            cuts.add(lo)
            cuts.add(hi + 1)
    for c in extra_points:
        cuts.add(ord(c))
        cuts.add(ord(c) + 1)
    cuts = sorted(cuts)
    return [(cuts[i], cuts[i + 1] - 1) for i in range(len(cuts) - 1)]


class NFA:
    def __init__(self):
        self.eps = []     # state -> list of states
        self.tr = []      # state -> list of (frozenset(cell indices), state)

    def new(self):
        self.eps.append([])
        self.tr.append([])
        return len(self.eps) - 1


def build(tree, cells, max_states=200000):
    """Thompson construction; bounded repeats are unrolled.  -> (nfa, start, accept)"""
    nfa = NFA()

    def cellset(t):
        s = node_set(t)
        return frozenset(i for i, (lo, hi) in enumerate(cells) if den.inter(s, ((lo, hi),)))

    def go(t):
        if len(nfa.eps) > max_states:
            raise MemoryError('NFA too large')
        k = t[0]
        if k in ('lit', 'set', 'any'):
            a, b = nfa.new(), nfa.new()
            nfa.tr[a].append((cellset(t), b))
            return a, b
        if k == 'seq':
            a = b = nfa.new()
            for x in t[1:]:
                s, e = go(x)
                nfa.eps[b].append(s)
                b = e
            return a, b
        if k == 'alt':
            a, b = nfa.new(), nfa.new()
            for x in t[1:]:
                s, e = go(x)
                nfa.eps[a].append(s)
                nfa.eps[e].append(b)
            return a, b
        if k in ('cap',):
            return go(t[3])
        if k == 'rep':
            lo, hi, lazy, x = t[1:]
            a = b = nfa.new()
            for _ in range(lo):
                s, e = go(x)
                nfa.eps[b].append(s)
                b = e
            if hi is None:
                s, e = go(x)
                loop = nfa.new()
                nfa.eps[b].append(loop)
                nfa.eps[loop].append(s)
                nfa.eps[e].append(loop)
                return a, loop
            end = nfa.new()
            nfa.eps[b].append(end)
            for _ in range(hi - lo):
                s, e = go(x)
                nfa.eps[b].append(s)
                nfa.eps[e].append(end)
                b = e
            return a, end
        raise ValueError('construct not supported by the automaton translation: ' + k)

    s, e = go(tree)
    return nfa, s, e


def closure(nfa, states):
    seen = set(states)
    stack = list(states)
    while stack:
        q = stack.pop()
        for r in nfa.eps[q]:
            if r not in seen:
                seen.add(r)
                stack.append(r)
    return frozenset(seen)


def step(nfa, S, cell):
    nxt = set()
    for q in S:
        for cs, r in nfa.tr[q]:
            if cell in cs:
                nxt.add(r)
    return closure(nfa, nxt)


def product(nfa, start, accept, cells, ref_start, ref_step, ref_accept, reps):
    """BFS over reachable (NFA state set, reference state).  reps[i] = representative character of cell i.
    -> (states: list of (access string, nfa_accepts, ref_accepts), n_transitions)"""
    S0 = closure(nfa, [start])
    init = (S0, ref_start)
    access = {init: ''}
    order = [init]
    dq = deque([init])
    ntr = 0
    while dq:
        cur = dq.popleft()
        S, r = cur
        for i, ch in enumerate(reps):
            ntr += 1
            S2 = step(nfa, S, i)
            r2 = ref_step(r, ch) if r is not None else None
            if not S2 and r2 is None:
                continue        # both dead: one sink, not expanded
            nxt = (S2, r2)
            if nxt not in access:
                access[nxt] = access[cur] + ch
                order.append(nxt)
                dq.append(nxt)
    out = []
    for st in order:
        S, r = st
        out.append((access[st], accept in S, r is not None and ref_accept(r)))
    return out, ntr
