"""Alphabets (DESIGN.md 2): literal atoms derived from the characters that the
implementation's own regexes, escape set and replace() calls are sensitive to."""
import itertools

SIGMA_META = list("\\|()[]{}?*+.^$/-,:<>=!PiAZbBwds012az_'\" \n\t") + ['é']

CURATED = [
    '(?:', '(?:a)', '(?=b)', '(?<!b)', '(?<=b)', '(?!b)', '(?P<n>', '(?P<n>a)', '(?P=n)', '{2}', '{1,2}', 'a{2}',
    'a{1,2}', '{,2}', '{2,}', 'a|b', '[a]', '[^a]', '[a-z]', '\\A', '\\Z', '\\b', '\\B', '\\w', '\\d', 'US$', '^a',
    'a$b', 'a$', '$a', ')(', 'a)(b', '(a)', '(a)(b)', '(a|b)', '\\\\', '\\\\\\', 'a\\', '\\a', '?:', '(?i:a)', '\\1',
    'a.b', 'a+b', 'a*', 'a?', 'a+', '[(]', '[)]', '([)]', 'a[', 'a]', '[a', ']a', '[\\]', '\\]', '\\[', '\\(',
    '\\)', '(\\)', '[\n]', '(\n)', 'a\nb', '^$', '$^', '\\A\\Z', '(?', '(?)', '(?#a)', '(?i)', 'a||b', '|a', 'a|',
    '||', "'\"", "a'b", 'a"b', '/a/', '//', 'é$', '\tx', 'x y', '-a-', '[-]', '[a-]', '[^', '^]', '$$', '$$$', '$$$$',
]
CURATED += ['%', '%d', '100%', '%%', 'b', ':a', '::', ':', 'a:', '?:a', "it's \"x\"", 'e\u0301', '\u0301', 'a\u0300\u0301b', '\u200d', 'a\ufe0f', '\u0627\u0651', '\U0001f468\u200d\U0001f469', '\x00', 'a\x00b', '\x7f', '\x85', '\u2028',
            '\ud800', '\udfff', '\U0010ffff', '\ufeff', '\ufffe', '}', '{', 'a}', '{a', '{}', '{0}', '{x}', '%s', '%(a)s', '{0', '0}']
for _c in "\\^$()[]{}?+*.|/":
    CURATED.append(_c * 3)
    CURATED.append(_c * 4)


def literals_upto2():
    out = []
    for c in SIGMA_META:
        out.append(c)
    for a, b in itertools.product(SIGMA_META, repeat=2):
        out.append(a + b)
    return out


def all_literals():
    seen, out = set(), []
    for s in literals_upto2() + CURATED:
        if s not in seen:
            seen.add(s)
            out.append(s)
    return out


# shape-representative literals for deeper levels
CORE_LITERALS = ['e\u0301', '}', '%', 'b', ':a', 'a', 'ab', '.', '\\', '$', 'a$', '^', '[', ']', '(', ')', '(a)', '|', 'a|b', '?', '*', '+',
                 '{2}', 'a{1,2}', '-', '/', '\n', "'", '"', 'é', '\\b', '\\A', '(?:', '(?=b)', '[a]', '[^a]',
                 '\\1', '1', ' ', '[(', 'US$', 'a[b', 'x(']

SMALL_LITERALS = ['a', 'b', 'ab', '$', '[', '(', ')', 'a|b', '?', '\\', '1', '%']

CLASS_ATOMS = ['AnyDigit()', 'Any()', "AnyBetween('a', 'c')", "AnyFrom('+', '-')", "AnyFrom('|', 'x')",
               "AnyButFrom('(', ')')", 'AnyLetter()', 'AnyWordChar(is_global=True)', 'AnyButWhitespace()',
               "AnyFrom('?', 'a')", "AnyFrom('{', '2', '}')", "AnyFrom('(', 'a')", "AnyButFrom('a')",
               "AnyFrom('[', 'a')", "AnyFrom(']', 'a')", "AnyFrom('$', 'a')", "AnyFrom('^', 'a')",
               "AnyButFrom('\\\\')", "AnyFrom('\\\\', '!')", "AnyFrom('\\\\', 'k')", "AnyButFrom(')')", "AnyFrom('(', ')')",
               "AnyFrom('\\n', '(')", "AnyBetween('(', '+')"]
TOKEN_ATOMS = ['Newline()', 'Backslash()', 'Dollar()', 'Space()']
ASSERT_ATOMS = ['WordBoundary()', 'NonWordBoundary()']
REF_ATOMS = ['Backreference(1)', "Backreference('n')", "Conditional('n', 'a', 'b')", "Conditional('n', 'a')"]
EMPTY = 'Pregex()'
# one partner per inferred type, so that binary operations meet every pair of types
TYPED_ATOMS = ["Either('a', 'b')", "Optional('a')", "Capture('a')", "MatchAtLineStart('a')", "FollowedBy('a', 'b')",
               "NotPrecededBy('b', 'a')", "Group('ab')", "OneOrMore(AnyDigit())"]

SMALL_OTHER = ["AnyButFrom('\\\\')", "AnyFrom('\\\\', '!')", "AnyButFrom(')')", 'AnyDigit()', 'Any()', "AnyFrom('+', '-')", "AnyFrom('|', 'x')", 'AnyLetter()', 'Newline()', 'Backslash()',
               'WordBoundary()', 'Pregex()', 'Backreference(1)', "Conditional('n', 'a', 'b')",
               "Either('a', 'b')", "Optional('a')", "Capture('a')", "MatchAtLineStart('a')", "FollowedBy('a', 'b')"]


# composite operands whose emitted text imitates another kind at its ends (balanced-looking parentheses from two groups,
# parentheses/brackets as class members, a literal backslash before a group, quantified ends); they stress the textual type
# inference behind every "group it or not" decision
CONFUSERS = ["Capture(AnyFrom('(', '[')) + OneOrMore(AnyDigit()) + Capture(AnyFrom(')', ']'))",
             "Capture('a') + 'b' + Capture('c')", "Group(Either('a', 'b')) + Group(Either('c', 'd'))",
             "AnyFrom('(', 'x') + AnyFrom(')', 'y')", "Capture('a') + ')'", "'(' + Capture('a')",
             "AnyFrom('[', ']') + 'a'", "AnyFrom('a', 'b') + 'x' + AnyFrom('c', 'd')", "Optional('a') + 'b' + Optional('c')",
             "Capture(AnyFrom(')', 'a'))", "Group(AnyFrom('(', 'a'))", "Capture('a', 'n') + Backreference('n')",
             "Pregex('\\\\') + Capture('a')", "Capture(Backslash()) + 'x' + Capture(Backslash())",
             "Exactly('a', 2) + 'b' + Exactly('c', 2)", "AnyFrom('\\n', '(') + Capture('a')",
             "Group('a', is_case_insensitive=True) + Group('b', is_case_insensitive=True)",
             "FollowedBy('a', 'b') + FollowedBy('c', 'd')", "MatchAtStart('a') + MatchAtEnd('b')",
             "Either('a', Capture('b')) + Either(Capture('c'), 'd')", "Capture(AnyFrom('|', '(')) + Capture(AnyFrom('|', ')'))",
             # explicit groups whose content contains further (automatic or explicit, flagged or named) groups
             "Group(Either('a', 'b') + 'c')", "Group(Group('a') + Optional(Group('b')))", "Group('a' + Group(Either('b', 'c'), True))",
             "Group(Optional('ab') + Capture('c', 'n'))", "Capture(Group(Either('a', 'b')) + Group('c', True), 'n')", "Group(Either('a', 'b') + 'c', True)",
             # an alternation whose first / last branch already carries the anchor or lookaround that an outer operation adds again
             "Either(MatchAtStart('a'), 'b')", "Either('b', MatchAtEnd('a'))", "Either(MatchAtLineStart('a'), 'b')", "Either('b', MatchAtLineEnd('a'))", "Either(FollowedBy('a', 'c'), 'b')",
             "Either(PrecededBy('a', 'c'), 'b')", "Either('b', NotFollowedBy('a', 'c'))",
             # a numeric reference right after a literal backslash / at the end of a longer operand (junction with a following digit)
             "Pregex('\\\\') + Backreference(1)", "Capture('a') + Pregex(':\\\\') + Backreference(1)", "Capture('a') + Backreference(1)", "Backreference(1) + Backreference(2)"]


def confuser_atoms():
    return [(e, None) for e in CONFUSERS]


def atom_list(literals, others):
    """-> list of (expr, lit)"""
    out = [('Pregex(%r)' % s, s) for s in literals]
    out += [(e, None) for e in others]
    return out


def core_atoms():
    return atom_list(CORE_LITERALS, CLASS_ATOMS + TOKEN_ATOMS + ASSERT_ATOMS + REF_ATOMS + TYPED_ATOMS + [EMPTY])


def small_atoms():
    return atom_list(SMALL_LITERALS, SMALL_OTHER)


def tiny_atoms():
    return atom_list(['a', 'b', '[', 'a|b'], ['AnyDigit()', "AnyFrom('|', 'x')", 'Pregex()', "Either('a', 'b')"])
