"""Owning the one source of nondeterminism in pregex: `set` iteration order (DESIGN.md 1.3).

`pregex.core.classes` assembles class text by iterating Python sets of strings, so its output
depends on PYTHONHASHSEED.  The name `set` is shadowed in that module's globals by VSet, whose
iteration order is chosen by the current *schedule*: choice point k (the k-th set object that is
iterated for the first time during a run) gets the permutation spec schedule.get(k, default).
The default is the sorted order, which makes every check deterministic whatever the real hash
seed is; deviations are enumerated by the class engine (0, 1, 2 deviations).
"""
import os

_builtin_set = set


class Schedule:
    def __init__(self, choices=None):
        self.choices = dict(choices or {})
        self.points = []          # size of the set at each choice point, in order of appearance

    def take(self, n):
        k = len(self.points)
        self.points.append(n)
        return self.choices.get(k)


CURRENT = Schedule()


def alternatives(n, full=False):
    """permutation specs for a set of n elements (None = sorted order is the default)"""
    if n < 2:
        return []
    if full and n <= 5:
        import itertools
        return [('perm', p) for p in itertools.permutations(range(n)) if p != tuple(range(n))]
    out = [('rev',)]
    for i in range(n):
        if i > 0:
            out.append(('front', i))
        if i < n - 1:
            out.append(('back', i))
    for i in range(n - 1):
        out.append(('swap', i))
    # de-duplicate specs that denote the same permutation
    seen, res = {tuple(range(n))}, []
    for spec in out:
        p = tuple(apply_spec(list(range(n)), spec))
        if p not in seen:
            seen.add(p)
            res.append(spec)
    return res


def apply_spec(items, spec):
    if spec is None:
        return items
    kind = spec[0]
    n = len(items)
    if kind == 'rev':
        return items[::-1]
    if kind == 'perm':
        if len(spec[1]) != n:
            return items   # the set changed size since the choice was made: keep sorted order
        return [items[i] for i in spec[1]]
    i = spec[1]
    if i >= n:
        return items
    if kind == 'front':
        return [items[i]] + items[:i] + items[i + 1:]
    if kind == 'back':
        return items[:i] + items[i + 1:] + [items[i]]
    if kind == 'swap':
        if i + 1 >= n:
            return items
        items = list(items)
        items[i], items[i + 1] = items[i + 1], items[i]
        return items
    raise ValueError(spec)


class VSet(_builtin_set):
    __slots__ = ('_spec', '_decided')

    def _order(self):
        items = sorted(_builtin_set.__iter__(self), key=lambda x: (str(type(x)), x))
        if not getattr(self, '_decided', False):
            self._spec = CURRENT.take(len(items)) if len(items) > 1 else None
            self._decided = True
        return apply_spec(items, self._spec)

    def __iter__(self):
        return iter(self._order())

    def _wrap(self, s):
        r = VSet()
        _builtin_set.update(r, s)
        return r

    def union(self, *o):
        return self._wrap(_builtin_set.union(self, *o))

    def difference(self, *o):
        return self._wrap(_builtin_set.difference(self, *o))

    def intersection(self, *o):
        return self._wrap(_builtin_set.intersection(self, *o))

    def copy(self):
        return self._wrap(self)

    def __or__(self, o):
        return self._wrap(_builtin_set.__or__(self, o))

    def __sub__(self, o):
        return self._wrap(_builtin_set.__sub__(self, o))

    def __and__(self, o):
        return self._wrap(_builtin_set.__and__(self, o))

    def pop(self):
        x = self._order()[0]
        _builtin_set.discard(self, x)
        return x

    def __reduce__(self):
        return (VSet, (list(_builtin_set.__iter__(self)),))


def install(classes_module):
    if os.environ.get('PREGEX_VERIF_VSET', '1') == '0':
        return False
    classes_module.__dict__['set'] = VSet
    return True


def uninstall(classes_module):
    classes_module.__dict__.pop('set', None)


def run_with(schedule_choices, fn):
    """runs fn() under the given schedule; returns (result-or-exception, schedule)"""
    global CURRENT
    old = CURRENT
    CURRENT = Schedule(schedule_choices)
    try:
        try:
            return ('ok', fn()), CURRENT
        except Exception as e:  # noqa: BLE001
            return ('raise', e), CURRENT
    finally:
        CURRENT = old
