"""C11-C14: the matching / extraction / splitting / file API against re itself.

Every check enumerates patterns x texts (all strings over a small alphabet up to a length bound)
x method parameters, and for C11 additionally all histories of compile()/get_compiled_pattern()/
purge() up to a depth bound plus the closure of the abstract cache state graph.
"""
import itertools
import json
import os
import re
import shutil
import tempfile

from .. import common, rx
from ..common import V
from ..env import NS

FLAGS = rx.FLAGS

# (expr, extra symbol for the text alphabet)
PATTERNS = [
    ("Pregex('a')", ''), ("Pregex('ab')", ''), ("Pregex('aa')", ''), ("Either('a', 'ab')", ''), ("Either('ab', 'a')", ''),
    ("Indefinite('a')", ''), ("Optional('a')", ''), ("OneOrMore('a')", ''), ("Indefinite('a', False)", ''),
    ("OneOrMore(Either('a', 'b'), False)", ''), ("Exactly('a', 2)", ''), ("AtLeastAtMost('ab', 1, 2)", ''),
    ("WordBoundary()", ' '), ("NonWordBoundary()", ' '), ("MatchAtLineStart('a')", ''), ("MatchAtLineEnd('a')", ''),
    ("MatchAtLineStart(Pregex())", ''), ("MatchAtLineEnd(Pregex())", ''), ("MatchAtStart('a')", ''), ("MatchAtEnd('b')", ''),
    ("MatchAtLineStart(MatchAtLineEnd('a'))", ''), ("MatchAtLineStart(MatchAtLineEnd(Indefinite('a')))", ''),
    ("Any()", ''), ("Any() * 2", ''), ("'a' + Any() + 'b'", ''), ("OneOrMore(Any())", ''), ("OneOrMore(Any(), False) + 'b'", ''),
    ("AnyButFrom('a')", ''), ("AnyButWhitespace()", ' '), ("AnyWhitespace()", ' '), ("Newline()", ''), ("Indefinite(Newline()) + 'a'", ''),
    ("Tab()", '\t'), ("Backslash()", '\\'), ("Backslash() * 2", '\\'), ("Pregex('\\\\n')", '\\'), ("Pregex(\"'\")", "'"),
    ("Pregex('\"')", '"'), ("Pregex('\\'\"')", "'"), ("Pregex('é')", 'é'), ("Pregex('\\x00')", '\x00'), ("Pregex('\\x7f')", '\x7f'),
    ("Pregex('\\u2028')", '\u2028'), ("Pregex('\\U0001f600')", '\U0001f600'), ("Pregex('\\ud800')", '\ud800'),
    ("AnyFrom('\\n', 'a')", ''), ("AnyBetween('\\x00', 'a')", '\x00'), ("AnyCJK()", '\u4e00'),
    ("Capture('a')", ''), ("Capture('a') + Capture('b')", ''), ("Capture('a', 'x') + Optional(Capture('b'))", ''),
    ("Capture(Indefinite('a')) + 'b'", ''), ("Either(Capture('a'), Capture('b', 'y'))", ''),
    ("Capture('a' + Capture('b', 'n'), 'm')", ''), ("FollowedBy('a', 'b')", ''), ("PrecededBy('b', 'a')", ''),
    ("NotFollowedBy('a', 'b')", ''), ("NotPrecededBy('b', 'a')", ''), ("EnclosedBy('b', 'a')", ''),
    ("Capture('a', 'n') + Backreference('n')", ''), ("Capture(AnyFrom('a', 'b')) + Backreference(1)", ''),
    ("Optional(Capture('a', 'n')) + Conditional('n', 'b', 'a')", ''), ("Group('a', True)", 'A'), ("Pregex()", ''),
    ("Indefinite(Either('a', 'b')) + 'b'", ''), ("Either('a', Pregex('b') + 'a')", ''),
    ("Either(MatchAtStart('a'), 'b')", ''), ("Either('a', MatchAtEnd('b'))", ''), ("Either(MatchAtLineStart('a'), 'b')", ''),
    ("Either(MatchAtLineEnd('a'), 'b')", ''), ("Either(PrecededBy('a', 'b'), 'a')", ''), ("Either(MatchAtStart(Pregex()), 'b') + 'a'", ''),
    ("Pregex(\"\\\\'\")", "\\'"), ("Pregex('\\\\\"')", '\\"'), ("Pregex(\"\\\\'\" + '\"')", "\\'\""), ("AnyFrom(Backslash(), \"'\")", "\\'"),
    ("Pregex('\\\\n')", '\\n'), ("Pregex('\\\\') + Newline()", '\\'), ("Pregex('a\\\\\\\\' + \"'\")", "\\'"),
    # the two documented flags are observable only with an anchor / a dot *inside* the pattern and a line break in the text
    ("Pregex('a') + Newline() + MatchAtLineStart('b')", ''), ("MatchAtLineEnd('a') + Newline() + 'b'", ''), ("'a' + Any() + 'b'", ''),
    ("Indefinite(Any()) + MatchAtLineEnd(Pregex('a'))", ''), ("Optional(MatchAtLineStart('a') + Newline()) + 'b'", ''),
    ("Pregex('\ufeff') + Optional('a')", '\ufeff'), ("Optional('a')", '\ufeff'),
    ("Optional('a', False)", ''), ("Indefinite(AnyLetter(), False)", ''), ("Either(WordBoundary(), AnyLetter())", ' '), ("Either(Pregex(), 'a')", '') if False else ("AtMost('ab', 2, False)", ''),
    ("Pregex('\\\\') + Capture('a')", '\\'), ("Pregex('\\\\') + Capture(OneOrMore(AnyLetter()))", '\\'), ("Either(MatchAtStart('ab'), OneOrMore('b'))", ''), ("Either(MatchAtStart('a') + 'b', 'b', MatchAtEnd('a'))", ''),
    ("MatchAtStart(Either(MatchAtStart('a'), 'b'))", ''), ("Optional(OneOrMore('a'), False) + Either('b', 'ab' + Any())", ''),
    # non-printable / astral code points: what get_pattern() prints is what compile() compiles
    ("Pregex('\u2028')", '\u2028'), ("Pregex('\u202f') + 'a'", '\u202f'), ("Pregex('\u200b')", '\u200b'), ("Pregex('\U0001f600')", '\U0001f600'), ("Pregex('\x85')", '\x85'),
]

MORE_PATTERNS = [
    ("Indefinite(AnyFrom('a', 'b'))", ''), ("AtMost('a', 2, False)", ''), ("AtLeast('ab', 2)", ''), ("Optional('ab', False) + 'a'", ''),
    ("Either('a', 'b', 'ab')", ''), ("Either('aa', 'a')", ''), ("Concat('a', Optional('b'), 'a')", ''),
    ("Enclose('b', 'a')", ''), ("MatchAtStart(Indefinite('a'))", ''), ("MatchAtEnd(Indefinite('a'))", ''),
    ("MatchAtLineEnd(OneOrMore(Any(), False))", ''), ("MatchAtLineStart(OneOrMore(AnyButFrom('\\n')))", ''),
    ("Word()", ' '), ("Word(is_extensible=True)", ' '), ("Integer()", '1'), ("Numeral(base=2)", '1'), ("Whitespace()", ' '),
    ("NonWhitespace()", ' '), ("Text()", ''), ("Text(is_optional=True)", ''), ("FollowedBy(Pregex(), 'a')", ''),
    ("NotFollowedBy(Pregex(), 'a')", ''), ("PrecededBy(Pregex(), 'a')", ''), ("NotPrecededBy(Pregex(), 'a')", ''),
    ("NotEnclosedBy('b', 'a')", ''), ("EnclosedBy(Pregex(), 'a')", ''), ("Capture(Optional('a')) + Capture(Optional('b'))", ''),
    ("Indefinite(Capture('a'))", ''), ("OneOrMore(Capture(Either('a', 'b')))", ''), ("Capture(Capture(Capture('a')))", ''),
    ("Capture(Pregex()) + 'a'", ''), ("Optional(Capture(Indefinite('a'), 'n')) + 'b'", ''), ("Group(Either('a', 'B'), True)", 'A'),
    ("Pregex('.')", '.'), ("Pregex('$')", '$'), ("Pregex('^')", '^'), ("Pregex('a|b')", '|'), ("Pregex('[a]')", '['),
    ("Pregex('a*')", '*'), ("Pregex('(a)')", '('), ("Pregex('\\\\')", '\\'), ("Pregex('\\\\\\\\')", '\\'), ("Pregex('\\t')", '\t'),
    ("Pregex('\\r')", '\r'), ("Pregex('\\x0b')", '\x0b'), ("Pregex('\\x85')", '\x85'), ("Pregex('\\xa0')", '\xa0'),
    ("Pregex('\\ufeff')", '\ufeff'), ("Pregex('\\U0010ffff')", '\U0010ffff'), ("AnyGreekLetter()", 'λ'), ("AnyButCJK()", '\u4e00'),
    ("AnyPunctuation()", '!'), ("AnyButPunctuation()", '!'), ("AnyWordChar(is_global=True)", 'é'), ("AnyButWordChar()", 'é'),
]


def graph_patterns(n):
    """n patterns taken at a regular stride from the depth-1 states of the DSL value graph (self-contained ones only)"""
    from .. import alphabet as al, dsl, explore
    L = explore.Level
    res = explore.run(dsl.safe_atoms(al.small_atoms()),
                      [L(dsl.core_quantifier_ops() + dsl.group_ops() + dsl.anchor_ops(), dsl.binary_ops(), al.small_atoms(), (0, 1), 'd1'),
                       L([], [], [], (0,), 'collect')], [], nested_tail=False)
    exprs = sorted(d[0] for d in res['frontier'].values())
    out = []
    for e in exprs:
        try:
            t = str(build(e))
            p = rx.parse(t)
        except Exception:  # noqa: BLE001
            continue
        if p.inctx or not t:
            continue
        extra = [c for c in rx.alphabet([p.tree], limit=4) if c not in 'ab\n']
        out.append((e, ''.join(extra[:1])))
    step = max(1, len(out) // n)
    return out[::step][:n]


def patterns(tier):
    if tier == 'thorough':
        return PATTERNS + MORE_PATTERNS + graph_patterns(400)
    return PATTERNS + graph_patterns(40)


def universe(extra, L, base='ab\n'):
    sigma = base + ''.join(c for c in extra if c not in base)
    out = ['']
    for l in range(1, L + 1):
        out.extend(''.join(t) for t in itertools.product(sigma, repeat=l))
    # a few texts that begin / end with characters some I/O layers treat specially
    out += ['\ufeff' + sigma[0], '\ufeff' + sigma[0] + sigma[1], sigma[0] + '\ufeff', '\ufeff', '\x00' + sigma[0], sigma[0] + '\x00' + sigma[1], '\r' + sigma[0],
            sigma[0] + '\r\n' + sigma[1], '\x1a' + sigma[0], sigma[0] + '\u2028' + sigma[1]]
    return out


def build(expr):
    return eval(expr, NS)


# ----------------------------------------------------------------------------------
# C11
# ----------------------------------------------------------------------------------
def model11(cre, t):
    ms = list(cre.finditer(t))
    return {
        'has_match': bool(cre.search(t)),
        'is_exact_match': bool(cre.fullmatch(t)),
        'get_matches': [m.group(0) for m in ms],
        'get_matches_and_pos': [(m.group(0), m.start(), m.end()) for m in ms],
    }


def observe11(p, t):
    return {
        'has_match': p.has_match(t),
        'is_exact_match': p.is_exact_match(t),
        'get_matches': p.get_matches(t),
        'get_matches_and_pos': p.get_matches_and_pos(t),
        'iterate_matches': list(p.iterate_matches(t)),
        'iterate_matches_and_pos': list(p.iterate_matches_and_pos(t)),
    }


EVENTS = {
    'compile': lambda p: p.compile(),
    'gcp_discard': lambda p: p.get_compiled_pattern(True),
    'gcp_keep': lambda p: p.get_compiled_pattern(False),
    'purge': lambda p: NS['Pregex'].purge(),
}
EVENT_SRC = {'compile': 'p.compile()', 'gcp_discard': 'p.get_compiled_pattern(True)',
             'gcp_keep': 'p.get_compiled_pattern(False)', 'purge': 'Pregex.purge()'}


def abstract(p):
    compiled = getattr(p, '_Pregex__compiled', None) is not None
    cached = any(k[1] == str(p) for k in list(getattr(re, '_cache', {}).keys()) if isinstance(k, tuple) and len(k) > 1)
    return (compiled, cached)


def compare11(expr, hist, p, cre, texts, viol, cnt, full):
    for t in texts:
        want = model11(cre, t)
        got = observe11(p, t)
        cnt['observations'] += 6
        for k, v in got.items():
            w = want[k.replace('iterate_', 'get_')]
            if v != w:
                viol.append(V('C11|%s|%s|%s|%r' % (expr, '>'.join(hist), k, t) if full else 'C11|%s|%s|%s' % (expr, '>'.join(hist), k),
                              f"{expr} after [{', '.join(hist)}]: {k}({t!r}) = {v!r}, re gives {w!r}",
                              'import re\np = %s\n%s\nwant = %r\nassert %s == want' % (
                                  expr, '\n'.join(EVENT_SRC[e] for e in hist), w,
                                  ('list(p.%s(%r))' if k.startswith('iterate') else 'p.%s(%r)') % (k, t))))
                return False
        for (m, s, e) in got['get_matches_and_pos']:
            if t[s:e] != m:
                viol.append(V('C11|%s|%s|slice' % (expr, '>'.join(hist)), f"{expr}: source[{s}:{e}] != {m!r} on {t!r}",
                              'p = %s\nfor m, s, e in p.get_matches_and_pos(%r):\n    assert %r[s:e] == m' % (expr, t, t)))
                return False
    return True


_TD11 = None


def _files11(expr, hist, p, cre, texts, viol, cnt):
    """the same observers through is_path=True, in the current (possibly compiled) state"""
    global _TD11
    if _TD11 is None:
        _TD11 = tempfile.mkdtemp(prefix='c11_')
        import atexit
        atexit.register(shutil.rmtree, _TD11, True)
    for i, t in enumerate(texts):
        if '\r' in t:
            continue
        try:
            t.encode('utf-8')
        except UnicodeEncodeError:
            continue
        # two of three texts go through one path whose file is rewritten (the instance has read the earlier content), the third gets a fresh path
        path = os.path.join(_TD11, 'f%d_%d.txt' % (os.getpid(), i if i % 3 == 2 else 0))
        with open(path, 'w', encoding='utf-8', newline='') as fh:
            fh.write(t)
        want = model11(cre, t)
        try:
            got = {'has_match': p.has_match(path, is_path=True), 'is_exact_match': p.is_exact_match(path, is_path=True),
                   'get_matches': p.get_matches(path, is_path=True), 'get_matches_and_pos': p.get_matches_and_pos(path, is_path=True)}
        except Exception as e:  # noqa: BLE001
            got = {'has_match': 'raised ' + type(e).__name__}
        cnt['observations'] += 4
        for k, v in got.items():
            if v != want[k]:
                viol.append(V('C11|%s|%s|file|%s' % (expr, '>'.join(hist), k),
                              f"{expr} after [{', '.join(hist)}]: {k}(path, is_path=True) on a file containing {t!r} = {v!r}, re gives {want[k]!r}",
                              "import tempfile, os\np = %s\n%s\nf = os.path.join(tempfile.mkdtemp(), 'f.txt')\n"
                              "for prev in %r:\n    open(f, 'w', encoding='utf-8', newline='').write(prev)\n    for m in ('has_match', 'is_exact_match', 'get_matches', 'get_matches_and_pos'):\n        getattr(p, m)(f, is_path=True)\n"
                              "open(f, 'w', encoding='utf-8', newline='').write(%r)\n"
                              "assert p.%s(f, is_path=True) == %r" % (expr, '\n'.join(EVENT_SRC[e] for e in hist), [x for x in texts[max(0, i - 2):i] if '\r' not in x], t, k, want[k])))
                return


def _task11(arg):
    chunk, L, depth = arg
    viol = []
    cnt = {'observations': 0, 'histories': 0, 'abstract_states': 0, 'abstract_transitions': 0, 'patterns': 0, 'texts': 0}
    states_seen = set()
    for expr, extra in chunk:
        cnt['patterns'] += 1
        try:
            ref = build(expr)
            text = str(ref)
            cre = re.compile(text, FLAGS)
        except Exception as e:  # noqa: BLE001
            viol.append(V('C11|%s|unbuildable' % expr, f"{expr} cannot be built/compiled: {e!r}", 'import re\nre.compile(str(%s), 24)' % expr))
            continue
        texts = universe(extra, L)
        small = [t for t in texts if len(t) <= 3][:60] + [t for t in texts if len(t) == L][:20] + ['A', 'AB', 'aB', 'Ab a', 'BA'] + texts[-10:]
        cnt['texts'] += len(texts)
        # closure of the abstract state graph: one full sweep per distinct abstract state
        swept = {}
        frontier = [()]
        seen_hist = {()}
        while frontier:
            nxt = []
            for hist in frontier:
                re.purge()
                p = build(expr)
                for e in hist:
                    EVENTS[e](p)
                a = abstract(p)
                cnt['histories'] += 1
                states_seen.add((expr, a))
                if a not in swept:
                    swept[a] = hist
                    cnt['abstract_states'] += 1
                    compare11(expr, hist, p, cre, texts, viol, cnt, False)
                    _files11(expr, hist, p, cre, small[:12], viol, cnt)
                    # get_compiled_pattern returns an equivalent pattern object
                    cp = build(expr).get_compiled_pattern()
                    if not (cp.flags & FLAGS) == FLAGS or any(
                            [m.span() for m in cp.finditer(t)] != [m.span() for m in cre.finditer(t)] for t in small):
                        viol.append(V('C11|%s|compiled-object' % expr, f"{expr}: get_compiled_pattern() is not equivalent to the pattern",
                                      'p = %s\ncp = p.get_compiled_pattern()\nassert cp.flags & 24 == 24' % expr))
                else:
                    compare11(expr, hist, p, cre, small, viol, cnt, False)
                if len(hist) < depth:
                    for e in EVENTS:
                        h2 = hist + (e,)
                        cnt['abstract_transitions'] += 1
                        if h2 not in seen_hist:
                            seen_hist.add(h2)
                            nxt.append(h2)
            frontier = nxt
        # objects derived from a compiled (or once-compiled) parent are ordinary patterns of their own
        derivs = [('group(True)', lambda q: q.group(True)), ('group()', lambda q: q.group()), ('capture()', lambda q: q.capture()),
                  ("capture('z')", lambda q: q.capture('z')), ('optional()', lambda q: q.optional()), ("+ 'a'", lambda q: q + 'a'),
                  ('exactly(1)', lambda q: q.exactly(1)), ("concat('')", lambda q: q.concat('')), ('match_at_line_start()', lambda q: q.match_at_line_start()),
                  ("either('b')", lambda q: q.either('b'))]
        for prep_name, prep in (('compile', lambda q: q.compile()), ('gcp_keep', lambda q: q.get_compiled_pattern(False)),
                                ('gcp_discard', lambda q: q.get_compiled_pattern(True))):
            for dname, dfn in derivs:
                try:
                    parent = build(expr)
                    prep(parent)
                    d = dfn(parent)
                    dre = re.compile(str(d), FLAGS)
                except Exception:  # noqa: BLE001
                    continue        # not every derivation is defined for every pattern (e.g. duplicate names)
                cnt['histories'] += 1
                for t in small:
                    cnt['observations'] += 2
                    if d.get_matches_and_pos(t) != [(m.group(0), m.start(), m.end()) for m in dre.finditer(t)] or \
                            d.is_exact_match(t) != bool(dre.fullmatch(t)):
                        viol.append(V('C11|%s|derived|%s|%s' % (expr, prep_name, dname),
                                      f"p = {expr}; p.{prep_name}; d = p.{dname}: d.get_matches_and_pos({t!r}) = {d.get_matches_and_pos(t)!r}, "
                                      f"re on {str(d)!r} gives {[(m.group(0), m.start(), m.end()) for m in dre.finditer(t)]!r}",
                                      'import re\np = %s\n%s\nd = %s\ncre = re.compile(str(d), 24)\nt = %r\n'
                                      'assert d.get_matches_and_pos(t) == [(m.group(0), m.start(), m.end()) for m in cre.finditer(t)]\n'
                                      'assert d.is_exact_match(t) == bool(cre.fullmatch(t))'
                                      % (expr, {'compile': 'p.compile()', 'gcp_keep': 'p.get_compiled_pattern(False)',
                                                'gcp_discard': 'p.get_compiled_pattern(True)'}[prep_name],
                                         {'group(True)': 'p.group(True)', 'group()': 'p.group()', 'capture()': 'p.capture()', "capture('z')": "p.capture('z')",
                                          'optional()': 'p.optional()', "+ 'a'": "p + 'a'", 'exactly(1)': 'p.exactly(1)', "concat('')": "p.concat('')",
                                          'match_at_line_start()': 'p.match_at_line_start()', "either('b')": "p.either('b')"}[dname], t)))
                        break
    re.purge()
    return viol, cnt, len(states_seen)


def run_C11(run):
    thorough = run.tier == 'thorough'
    pats = patterns(run.tier)
    L, depth = (6, 5) if thorough else (5, 3)
    tot = {}
    states = 0
    hand = len(PATTERNS) + (len(MORE_PATTERNS) if thorough else 0)
    tasks = [(c, L, depth) for c in common.chunks(pats[:hand], 2)] + [(c, L - 1, min(depth, 3)) for c in common.chunks(pats[hand:], 4)]
    for viol, cnt, ns in common.pmap(_task11, tasks):
        run.add(viol)
        states += ns
        for k, v in cnt.items():
            tot[k] = tot.get(k, 0) + v
    run.merge_counts(tot)
    run.sample({'pattern': pats[3][0], 'emitted': str(build(pats[3][0])), 'history': ['compile', 'gcp_discard', 'purge'],
                'observers': list(observe11(build(pats[3][0]), 'aab').keys())})
    cov = {
        'states': states,
        'transitions': tot['abstract_transitions'],
        'traces_validated_against_impl': tot['histories'],
        'evaluations': tot['observations'],
        'distinct_nontrivial': tot['histories'],
        'rule': 'per pattern: every history over {compile, get_compiled_pattern(True), get_compiled_pattern(False), purge} up to '
                f'length {depth} is replayed on a fresh instance; the abstract state (compiled?, in re cache?) is explored to closure and every '
                f'distinct abstract state gets a full sweep of 6 observers over all texts of length <= {L}; other histories a reduced sweep',
        'exhaustive': True,
        'bounds': {'patterns': len(pats), 'text_length': L, 'alphabet': 'a b \\n + one pattern-specific symbol', 'history_depth': depth},
    }
    return cov, ['re.finditer/search/fullmatch on str(p) with MULTILINE|DOTALL is the reference',
                 'the per-instance cache protocol has 2 x 2 abstract states; histories longer than the bound are covered through that abstraction']


# ----------------------------------------------------------------------------------
# C12
# ----------------------------------------------------------------------------------
def layouts(tier):
    """group layouts built with the DSL -> list of expr"""
    letters = 'abc'
    kinds = ['plain', 'opt', 'emptycap', 'optnamed', 'named', 'alt']

    def unit(kind, ch, idx):
        name = 'n%d' % idx
        if kind == 'plain':
            return f"Capture({ch!r})", 1
        if kind == 'named':
            return f"Capture({ch!r}, {name!r})", 1
        if kind == 'opt':
            return f"Optional(Capture({ch!r}))", 1
        if kind == 'optnamed':
            return f"Optional(Capture({ch!r}, {name!r}))", 1
        if kind == 'emptycap':
            return f"Capture(Indefinite({ch!r}), {name!r})" if idx % 2 else f"Capture(Indefinite({ch!r}))", 1
        if kind == 'alt':
            return f"Either(Capture({ch!r}), Capture('c', {name!r}))", 2
    out = []
    maxg = 4 if tier == 'thorough' else 3
    for n in (1, 2, 3):
        for ks in itertools.product(kinds, repeat=n):
            parts, g = [], 0
            for i, k in enumerate(ks):
                e, c = unit(k, letters[i % 2 if n > 2 else i], i)
                parts.append(e)
                g += c
            if g > maxg:
                continue
            seq = ' + '.join(parts)
            out.append(seq)
            if g + 1 <= maxg:
                out.append(f"Capture({seq})")                       # nested: an outer group around everything
                out.append(f"Capture({seq}, 'outer')")
                if n > 1:
                    out.append(f"{parts[0]} + Capture({' + '.join(parts[1:])}, 'inner')")
                out.append(f"Optional(Capture({seq}, 'outer'))")
                out.append(f"'a' + Capture({seq})")
    # captures that lie outside the match itself (inside a lookbehind / lookahead): relative positions are negative or beyond the end
    out += ["PrecededBy('c', Capture('ab'))", "PrecededBy('c', Capture('a', 'n') + 'b')", "PrecededBy(Capture('c'), 'a' + Capture('b', 'n'))", "FollowedBy('a', Capture('b'))",
            "FollowedBy(Capture('a', 'n'), 'b' + Capture('c'))", "EnclosedBy('b', Capture('a'))", "PrecededBy('b', Capture(AnyLetter(), 'n') + AnyLetter() + AnyLetter())",
            "Capture(Optional('a')) + Capture(Optional('b')) + Capture(Optional('a'), 'n')", "Capture(Pregex()) + Capture(Pregex(), 'n') + 'a'",
            "Pregex('\\\\') + Capture('a')", "'(' + Capture('a', 'n') + ')'",
            # zero-length matches whose (named) captures sit inside a lookaround
            "FollowedBy(Pregex(), Capture('a', 'n'))", "PrecededBy(Pregex(), Capture('a', 'n'))", "FollowedBy(Pregex(), Capture('a') + Capture(Optional('b'), 'n'))",
            "FollowedBy(MatchAtLineStart(Pregex()), Capture('a', 'n'))"]
    seen, res = set(), []
    for e in out:
        if e not in seen:
            seen.add(e)
            res.append(e)
    if tier != 'thorough':
        res = [e for i, e in enumerate(res) if i % 2 == 0 or len(e) < 60]
    return res


def model12(cre, t):
    names = {v: k for k, v in cre.groupindex.items()}
    res = {}
    ms = list(cre.finditer(t))
    for ie in (True, False):
        res[('get_captures', ie, None)] = [m.groups() if ie else tuple(g for g in m.groups() if g != '') for m in ms]
        res[('get_named_captures', ie, None)] = [
            {k: v for k, v in m.groupdict().items() if ie or v != ''} for m in ms]
        for rel in (False, True):
            cap, ncap = [], []
            for m in ms:
                row, d = [], {}
                for gi in range(1, cre.groups + 1):
                    g = m.group(gi)
                    if not ie and g == '':
                        continue
                    s, e = m.span(gi)
                    if rel and s > -1:
                        s, e = s - m.start(), e - m.start()
                    row.append((g, s, e))
                    if gi in names:
                        d[names[gi]] = (g, s, e)
                cap.append(row)
                ncap.append(d)
            res[('get_captures_and_pos', ie, rel)] = cap
            res[('get_named_captures_and_pos', ie, rel)] = ncap
    return res, ms


def _safe(f):
    """a library call inside an engine: an exception is an observation, not a harness failure"""
    try:
        return f()
    except Exception as e:  # noqa: BLE001
        return 'raised ' + type(e).__name__


def _task12(arg):
    chunk, L = arg
    viol = []
    cnt = {'observations': 0, 'patterns': 0, 'texts': 0, 'slices_checked': 0}
    texts = universe('c', L, base='ab')
    for expr in chunk:
        try:
            p = build(expr)
            cre = re.compile(str(p), FLAGS)
        except Exception as e:  # noqa: BLE001
            viol.append(V('C12|%s|unbuildable' % expr, f"{expr}: {e!r}", 'p = ' + expr))
            continue
        cnt['patterns'] += 1
        cnt['texts'] += len(texts)
        bad = set()
        pc = build(expr)
        pc.compile()
        td = tempfile.mkdtemp(prefix='c12_')
        try:
            for t in ('ab', 'abcab', 'a', '', 'cabcab'):
                path = os.path.join(td, 'f.txt')
                with open(path, 'w', encoding='utf-8') as fh:
                    fh.write(t)
                want, ms = model12(cre, t)
                for (meth, ie, rel), w in want.items():
                    kw = {'include_empty': ie, 'is_path': True}
                    if rel is not None:
                        kw['relative_to_match'] = rel
                    for q, state in ((p, 'plain'), (pc, 'compiled')):
                        cnt['observations'] += 1
                        try:
                            got = getattr(q, meth)(path, **kw)
                        except Exception as e:  # noqa: BLE001
                            got = 'raised ' + type(e).__name__
                        if got != w and ('file', meth, state) not in bad:
                            bad.add(('file', meth, state))
                            viol.append(V('C12|%s|%s|file|%s' % (expr, meth, state),
                                          f"{expr} ({state}): {meth}(path, is_path=True, ...) on a file containing {t!r} = {got!r}, re gives {w!r}",
                                          "import tempfile, os\np = %s\n%sf = os.path.join(tempfile.mkdtemp(), 'f.txt')\nopen(f, 'w', encoding='utf-8').write(%r)\n"
                                          "assert p.%s(f, **%r) == %r" % (expr, 'p.compile()\n' if state == 'compiled' else '', t, meth, kw, w)))
        finally:
            shutil.rmtree(td, ignore_errors=True)
        for ti, t in enumerate(texts):
            want, ms = model12(cre, t)
            for (meth, ie, rel), w in want.items():
                if (meth, ie, rel) in bad:
                    continue
                kw = {'include_empty': ie}
                if rel is not None:
                    kw['relative_to_match'] = rel
                got = _safe(lambda: getattr(p, meth)(t, **kw))
                it = _safe(lambda: list(getattr(pc if ti % 2 else p, meth.replace('get_', 'iterate_'))(t, **kw)))
                if ti % 3 == 0 and _safe(lambda: getattr(pc, meth)(t, **kw)) != got:
                    it = 'compiled instance disagrees'
                    cnt['observations'] += 1
                cnt['observations'] += 2
                why = None
                if got != w:
                    why = f"{meth}({t!r}, {kw}) = {got!r}, re gives {w!r}"
                elif it != got:
                    why = f"iterate form differs from {meth}({t!r}, {kw})"
                elif rel is not None:
                    # slicing the source (or the match) at each reported position reproduces the text
                    for m, row in zip(ms, got):
                        for g, s, e in (row if isinstance(row, list) else row.values()):
                            cnt['slices_checked'] += 1
                            if g is None:
                                if (s, e) != (-1, -1):
                                    why = f"non-participating group reported at {(s, e)}"
                            elif t[(m.start() if rel else 0) + s:(m.start() if rel else 0) + e] != g:   # a capture inside a lookaround lies outside the match
                                why = f"{meth}({t!r}, {kw}): slice [{s}:{e}] is not {g!r}"
                if why:
                    bad.add((meth, ie, rel))
                    argsrc = ', '.join('%s=%r' % kv for kv in kw.items())
                    viol.append(V('C12|%s|%s|%s|%s' % (expr, meth, ie, rel), f"{expr}: {why}",
                                  'p = %s\nwant = %r\nassert p.%s(%r, %s) == want\nassert list(p.%s(%r, %s)) == want\n'
                                  'p.compile()\nassert p.%s(%r, %s) == want\nassert list(p.%s(%r, %s)) == want'
                                  % (expr, w, meth, t, argsrc, meth.replace('get_', 'iterate_'), t, argsrc,
                                     meth, t, argsrc, meth.replace('get_', 'iterate_'), t, argsrc)))
    return viol, cnt


def run_C12(run):
    thorough = run.tier == 'thorough'
    lay = layouts(run.tier)
    L = 6 if thorough else 5
    tot = {}
    for viol, cnt in common.pmap(_task12, [(c, L) for c in common.chunks(lay, 6)]):
        run.add(viol)
        for k, v in cnt.items():
            tot[k] = tot.get(k, 0) + v
    run.merge_counts(tot)
    for e in (lay[1], lay[len(lay) // 2], lay[-1]):
        run.sample({'layout': e, 'emitted': str(build(e))})
    cov = {
        'states': tot['patterns'], 'transitions': tot['observations'],
        'traces_validated_against_impl': tot['observations'], 'evaluations': tot['observations'],
        'distinct_nontrivial': tot['patterns'],
        'rule': 'all group layouts of <= %d groups (each unnamed/named x plain/optional/empty-capable/alternation branch, siblings or nested) '
                'x all texts over {a,b,c} of length <= %d x 4 getters x include_empty x relative_to_match x get/iterate' % (4 if thorough else 3, L),
        'exhaustive': True,
        'bounds': {'layouts': len(lay), 'text_length': L},
    }
    return cov, ['re.Match.group/span/groupdict on str(p) is the reference']


# ----------------------------------------------------------------------------------
# C13
# ----------------------------------------------------------------------------------
FLAT_LAYOUTS = ["Capture('a')", "Capture('a') + Capture('b')", "Capture('a', 'x') + Optional(Capture('b'))",
                "Capture(Indefinite('a')) + 'b'", "Either(Capture('a'), Capture('b', 'y'))", "'a' + Capture(Optional('b')) + Capture(Indefinite('a'))",
                "Optional(Capture('a')) + Optional(Capture('b', 'n'))", "Capture(Either('a', 'ab'))", "Indefinite(Capture('a')) + 'b'",
                "Capture(Pregex()) + 'a'",
                # texts of the pattern that imitate or hide a group: literal backslash / parenthesis next to a capture, parentheses inside classes
                "Pregex('\\\\') + Capture('a')", "Capture(Pregex('\\\\')) + 'a'", "'(' + Capture('a') + ')'", "Capture('(')", "Capture(AnyFrom('(', ')'))",
                "Group('a') + Capture('b')", "Capture('a') + Group(Optional('b'))", "Pregex('\\\\') + Capture('a', 'x') + Pregex('\\\\') + Capture('b')",
                "AnyFrom('(', 'a') + Capture('b')", "Capture('a') + '?'", "Pregex('(?:') + Capture('a')"]
FLAT_LAYOUTS += ["FollowedBy('a', Capture('b'))", "PrecededBy('b', Capture('a'))", "FollowedBy(Capture('a'), Capture('b', 'n'))",
                 "Capture(Optional('a')) + Capture(Optional('b'))", "Capture(Pregex()) + Capture(Indefinite('b')) + Capture(Optional('a'), 'n')", "Capture(Optional('a')) + Capture(Pregex(), 'e') + 'b'"]
FLAT_EXTRA = {e: '(?:' if "'(?:'" in e else ('\\' if '\\\\' in e else '') + ('(' if "'('" in e or "'(?:'" in e else '') + (')' if "')'" in e else '') + ('?' if "'?'" in e else '') or 'c' for e in FLAT_LAYOUTS}


def _task13(arg):
    chunk, L = arg
    viol = []
    cnt = {'observations': 0, 'patterns': 0, 'reconstructions': 0}
    for expr, extra in chunk:
        try:
            p = build(expr)
            cre = re.compile(str(p), FLAGS)
        except Exception as e:  # noqa: BLE001
            viol.append(V('C13|%s|unbuildable' % expr, f"{expr}: {e!r}", 'p = ' + expr))
            continue
        cnt['patterns'] += 1
        flat = expr in FLAT_LAYOUTS
        bad = set()
        p_plain, p_comp = p, build(expr)
        p_comp.compile()
        for ti, t in enumerate(universe(extra, L)):
            p = p_comp if ti % 2 else p_plain       # every other text goes to the compiled instance
            setup = 'p = ' + expr + ('\np.compile()' if p is p_comp else '')
            ms = list(cre.finditer(t))
            # split_by_match
            if 'sbm' not in bad:
                pieces = _safe(lambda: p.split_by_match(t))
                cnt['observations'] += 1
                rebuilt = None if isinstance(pieces, str) else ''.join(a + m.group(0) for a, m in zip(pieces, ms)) + (pieces[-1] if pieces else '')
                cnt['reconstructions'] += 1
                if isinstance(pieces, str) or len(pieces) != len(ms) + 1 or rebuilt != t:
                    bad.add('sbm')
                    viol.append(V('C13|%s|split_by_match' % expr,
                                  f"{expr}: split_by_match({t!r}) = {pieces!r} does not rebuild the source with the {len(ms)} matches",
                                  'import re\n%s\nt = %r\nms = [m.group(0) for m in re.finditer(str(p), t, 24)]\nps = p.split_by_match(t)\n'
                                  "assert len(ps) == len(ms) + 1 and ''.join(a + b for a, b in zip(ps, ms)) + ps[-1] == t" % (setup, t)))
            # replace
            for count in ((0, 1, 2, 3, 4, 5, 6, 7, 9, 10, 11) if ti % 4 == 0 else (0, 2, len(t) + 2)):
                for repl in ('', 'X', 'ab', '-', 'N/A', '1.5', '(x)', '$', 'a|b', '[^', '?*+', '{0}', '%s'):
                    if ('rep', count) in bad:
                        continue
                    out, idx = [], 0
                    for i, m in enumerate(ms):
                        if count and i >= count:
                            break
                        out.append(t[idx:m.start()] + repl)
                        idx = m.end()
                    want = ''.join(out) + t[idx:]
                    got = _safe(lambda: p.replace(t, repl, count))
                    cnt['observations'] += 1
                    if got != want:
                        bad.add(('rep', count))
                        viol.append(V('C13|%s|replace|%d' % (expr, count),
                                      f"{expr}: replace({t!r}, {repl!r}, {count}) = {got!r}, expected {want!r}",
                                      '%s\nassert p.replace(%r, %r, %d) == %r' % (setup, t, repl, count, want)))
                    if count == 0 and 'join' not in bad and got != _safe(lambda: repl.join(p.split_by_match(t))):
                        bad.add('join')
                        viol.append(V('C13|%s|replace-vs-split' % expr,
                                      f"{expr}: replace({t!r}, {repl!r}) differs from joining the split pieces",
                                      '%s\nassert p.replace(%r, %r) == %r.join(p.split_by_match(%r))' % (setup, t, repl, repl, t)))
            # split_by_capture on non-nesting layouts
            if flat:
                for ie in (True, False):
                    if ('sbc', ie) in bad:
                        continue
                    caps = []
                    for m in ms:
                        for gi in range(1, cre.groups + 1):
                            g = m.group(gi)
                            if g is None or (not ie and g == ''):
                                continue
                            caps.append(g)
                    pieces = _safe(lambda: p.split_by_capture(t, ie))
                    cnt['observations'] += 1
                    cnt['reconstructions'] += 1
                    rebuilt = None if isinstance(pieces, str) else ''.join(a + c for a, c in zip(pieces, caps)) + (pieces[-1] if pieces else '')
                    if isinstance(pieces, str) or len(pieces) != len(caps) + 1 or rebuilt != t:
                        bad.add(('sbc', ie))
                        viol.append(V('C13|%s|split_by_capture|%s' % (expr, ie),
                                      f"{expr}: split_by_capture({t!r}, {ie}) = {pieces!r} does not rebuild the source with captures {caps!r}",
                                      '%s\nps = p.split_by_capture(%r, %r)\ncaps = %r\n'
                                      "assert len(ps) == len(caps) + 1 and ''.join(a + b for a, b in zip(ps, caps)) + ps[-1] == %r"
                                      % (setup, t, ie, caps, t)))
        for count, p in ((-1, p_plain), (-5, p_plain), (-1, p_comp)):
            try:
                p.replace('a', 'X', count)
                got = 'returned'
            except Exception as e:  # noqa: BLE001
                got = type(e).__name__
            cnt['observations'] += 1
            if got != 'InvalidArgumentValueException':
                viol.append(V('C13|%s|negative-count' % expr, f"{expr}: replace(count={count}) -> {got}",
                              "p = %s\n%stry:\n    p.replace('a', 'X', %d)\nexcept InvalidArgumentValueException:\n    pass\nelse:\n    raise AssertionError" % (expr, 'p.compile()\n' if p is p_comp else '', count)))
    return viol, cnt


def run_C13(run):
    thorough = run.tier == 'thorough'
    pats = patterns(run.tier) + [(e, FLAT_EXTRA[e]) for e in FLAT_LAYOUTS]
    L = 6 if thorough else 5
    tot = {}
    for viol, cnt in common.pmap(_task13, [(c, L) for c in common.chunks(pats, 2)]):
        run.add(viol)
        for k, v in cnt.items():
            tot[k] = tot.get(k, 0) + v
    run.merge_counts(tot)
    run.sample({'pattern': "Indefinite('a')", 'text': 'baab', 'split_by_match': build("Indefinite('a')").split_by_match('baab')})
    cov = {
        'states': tot['patterns'], 'transitions': tot['observations'],
        'traces_validated_against_impl': tot['observations'], 'evaluations': tot['observations'],
        'distinct_nontrivial': tot['patterns'],
        'rule': 'patterns (incl. empty-matching, adjacent and end matches) x all texts of length <= %d x counts {0,1,2,3,10,-1,-5} x '
                "replacements {'', X, ab, -}; split_by_capture on the non-nesting layouts" % L,
        'exhaustive': True, 'bounds': {'patterns': len(pats), 'text_length': L},
    }
    return cov, ['re.finditer spans on str(p) define the matches; replacement strings are plain (no backslash, no group reference)']


# ----------------------------------------------------------------------------------
# C14
# ----------------------------------------------------------------------------------
def _path_methods():
    """every public method with an is_path parameter x the full product of its other keyword arguments over small domains
    (each also left at its default)"""
    import itertools
    dom = {'include_empty': [None, True, False], 'relative_to_match': [None, True, False], 'n_left': [None, 0, 1, 3], 'n_right': [None, 0, 2],
           'repl': ['X', ''], 'count': [None, 0, 1, 2]}
    sig = {'has_match': [], 'is_exact_match': [], 'get_matches': [], 'get_matches_and_pos': [], 'iterate_matches': [], 'iterate_matches_and_pos': [],
           'get_matches_with_context': ['n_left', 'n_right'], 'iterate_matches_with_context': ['n_left', 'n_right'],
           'get_captures': ['include_empty'], 'iterate_captures': ['include_empty'], 'get_named_captures': ['include_empty'], 'iterate_named_captures': ['include_empty'],
           'get_captures_and_pos': ['include_empty', 'relative_to_match'], 'iterate_captures_and_pos': ['include_empty', 'relative_to_match'],
           'get_named_captures_and_pos': ['include_empty', 'relative_to_match'], 'iterate_named_captures_and_pos': ['include_empty', 'relative_to_match'],
           'replace': ['repl', 'count'], 'split_by_match': [], 'split_by_capture': ['include_empty']}
    out = []
    for meth, params in sig.items():
        for combo in itertools.product(*[dom[k] for k in params]):
            out.append((meth, {k: v for k, v in zip(params, combo) if v is not None}))
    return out


PATH_METHODS = _path_methods()
C14_PATTERNS = ["Pregex('a')", "Indefinite('a')", "Capture('a', 'x') + Optional(Capture('b'))", "MatchAtLineStart('a')",
                "MatchAtLineEnd(OneOrMore(AnyButFrom('\\n')))", "Pregex('é')", "Any()", "Either(Capture('a'), Capture('b', 'y'))",
                "WordBoundary()", "Pregex('/')", "OneOrMore(AnyLetter())", "Capture(Indefinite('a')) + 'b'"]


def _call(p, meth, arg, kw, is_path):
    kw = dict(kw)
    if is_path:
        kw['is_path'] = True
    if meth == 'replace':
        r = p.replace(arg, **kw)
    else:
        r = getattr(p, meth)(arg, **kw)
    return list(r) if meth.startswith('iterate') else r


def _task14(arg):
    exprs, contents, sizes = arg
    viol = []
    cnt = {'observations': 0, 'files': 0, 'windows': 0}
    td = tempfile.mkdtemp(prefix='c14_')
    try:
        for expr in exprs:
            try:
                p = build(expr)
                cre = re.compile(str(p), FLAGS)
            except Exception as e:  # noqa: BLE001
                viol.append(V('C14|%s|unbuildable' % expr, f"{expr}: {e!r}", 'import re\nre.compile(str(%s), 24)' % expr))
                continue
            bad = set()
            pc = build(expr)
            pc.compile()
            ps, pcs = build(expr), build(expr)
            pcs.compile()
            if os.path.exists(os.path.join(td, 'shared.txt')):
                os.remove(os.path.join(td, 'shared.txt'))
            for i, content in enumerate(contents):
                path = os.path.join(td, 'f%d.txt' % i)
                if content == '@PATH@':
                    content = path
                with open(path, 'w', encoding='utf-8', newline='') as fh:
                    fh.write(content)
                text = open(path, encoding='utf-8').read()
                cnt['files'] += 1
                # the same instance also reads one path whose file is rewritten for every content (a history of files behind one path)
                shared = os.path.join(td, 'shared.txt')
                prev = open(shared, encoding='utf-8').read() if os.path.exists(shared) else None
                if content != path:
                    with open(shared, 'w', encoding='utf-8', newline='') as fh:
                        fh.write(content)
                for meth, kw in PATH_METHODS:
                    if meth in bad:
                        continue
                    cnt['observations'] += 2
                    try:
                        a = _call(pc if i % 2 else p, meth, path, kw, True)
                    except Exception as e:  # noqa: BLE001
                        a = 'raised ' + type(e).__name__
                    b = _safe(lambda: _call(p, meth, text, kw, False))
                    if a != b:
                        bad.add(meth)
                        viol.append(V('C14|%s|%s|is_path' % (expr, meth),
                                      f"{expr}: {meth}(path, is_path=True) = {a!r} but on the content {text!r} it is {b!r}",
                                      "import tempfile, os\np = %s\nd = tempfile.mkdtemp()\nf = os.path.join(d, 'f.txt')\n"
                                      "open(f, 'w', encoding='utf-8').write(%r)\nkw = %r\n"
                                      "def norm(v):\n    return v if isinstance(v, (str, bool, list)) else list(v)\n"
                                      "assert norm(p.%s(f, is_path=True, **kw)) == norm(p.%s(%r, **kw))\np.compile()\n"
                                      "assert norm(p.%s(f, is_path=True, **kw)) == norm(p.%s(%r, **kw))"
                                      % (expr, content, kw, meth, meth, content, meth, meth, content)))
                        continue
                    if content == path:
                        continue
                    cnt['observations'] += 2
                    a = b
                    for inst in (ps, pcs):     # these two instances never read any other path
                        try:
                            a = _call(inst, meth, shared, kw, True)
                        except Exception as e:  # noqa: BLE001
                            a = 'raised ' + type(e).__name__
                        if a != b:
                            break
                    if a != b:
                        bad.add(meth)
                        viol.append(V('C14|%s|%s|is_path|rewritten' % (expr, meth),
                                      f"{expr}: after the file behind the path was rewritten from {prev!r} to {text!r}, {meth}(path, is_path=True) = {a!r} but on the content it is {b!r}",
                                      "import tempfile, os\np = %s\nd = tempfile.mkdtemp()\nf = os.path.join(d, 'f.txt')\nkw = %r\n"
                                      "def norm(v):\n    return v if isinstance(v, (str, bool, list)) else list(v)\n"
                                      "for compiled in (False, True):\n    if compiled:\n        p.compile()\n"
                                      "    open(f, 'w', encoding='utf-8').write(%r)\n    norm(p.%s(f, is_path=True, **kw))\n"
                                      "    open(f, 'w', encoding='utf-8').write(%r)\n"
                                      "    assert norm(p.%s(f, is_path=True, **kw)) == norm(p.%s(%r, **kw))"
                                      % (expr, kw, prev or '', meth, content, meth, meth, content)))
                # context windows on the text
                if 'win' in bad:
                    continue
                for nl, nr in sizes:
                    want = [text[max(m.start() - nl, 0):min(m.end() + nr, len(text))] for m in cre.finditer(text)]
                    got = _safe(lambda: p.get_matches_with_context(text, nl, nr))
                    got_it = _safe(lambda: list(p.iterate_matches_with_context(text, n_left=nl, n_right=nr)))
                    cnt['windows'] += 1
                    cnt['observations'] += 2
                    if got != want or got_it != want:
                        bad.add('win')
                        viol.append(V('C14|%s|window' % expr,
                                      f"{expr}: get_matches_with_context({text!r}, {nl}, {nr}) = {got!r}, expected {want!r}",
                                      'p = %s\nassert p.get_matches_with_context(%r, %d, %d) == %r' % (expr, text, nl, nr, want)))
                        break
            for nl, nr, exc in ((0.0, 0, 'InvalidArgumentTypeException'), (None, None, 'InvalidArgumentTypeException'), ('', 0, 'InvalidArgumentTypeException'),
                                (False, False, 'InvalidArgumentTypeException'), (0, False, 'InvalidArgumentTypeException'), (0, 0.0, 'InvalidArgumentTypeException'),
                                (0, -1, 'InvalidArgumentValueException'), (-1, 0, 'InvalidArgumentValueException'), (0, None, 'InvalidArgumentTypeException'),
                                ([], 0, 'InvalidArgumentTypeException'), (0, '', 'InvalidArgumentTypeException')):
                for meth in ('get_matches_with_context', 'iterate_matches_with_context'):
                    cnt['observations'] += 1
                    try:
                        list(getattr(p, meth)('aa', nl, nr))
                        got = 'returned'
                    except Exception as e:  # noqa: BLE001
                        got = type(e).__name__
                    if got != exc:
                        viol.append(V('C14|%s|%s|windows=%r,%r' % (expr, meth, nl, nr), f"{expr}: {meth}('aa', {nl!r}, {nr!r}) -> {got}, expected {exc}",
                                      "p = %s\ntry:\n    list(p.%s('aa', %r, %r))\nexcept %s:\n    pass\nelse:\n    raise AssertionError" % (expr, meth, nl, nr, exc)))
            for name in ('n_left', 'n_right'):
                for badv, exc in ((-1, 'InvalidArgumentValueException'), (True, 'InvalidArgumentTypeException'),
                                  (1.5, 'InvalidArgumentTypeException'), ('1', 'InvalidArgumentTypeException'),
                                  (None, 'InvalidArgumentTypeException')):
                    for meth in ('get_matches_with_context', 'iterate_matches_with_context'):
                        cnt['observations'] += 1
                        try:
                            r = getattr(p, meth)('aa', **{name: badv})
                            list(r)
                            got = 'returned'
                        except Exception as e:  # noqa: BLE001
                            got = type(e).__name__
                        if got != exc:
                            viol.append(V('C14|%s|%s|%s=%r' % (expr, meth, name, badv), f"{expr}: {meth}({name}={badv!r}) -> {got}, expected {exc}",
                                          "p = %s\ntry:\n    list(p.%s('aa', %s=%r))\nexcept %s:\n    pass\nelse:\n    raise AssertionError" % (expr, meth, name, badv, exc)))
    finally:
        shutil.rmtree(td, ignore_errors=True)
    return viol, cnt


_ENV14_CODE = r'''
import os, sys, tempfile, json
from mc.env import NS
Pregex = NS['Pregex']
out = []
d = tempfile.mkdtemp()
os.chdir(d)
os.makedirs('~', exist_ok=True)
os.makedirs('sub dir', exist_ok=True)
content = 'ab \u00e9a\nb\u03bb a\u4e2d'
names = ['plain.txt', '~tilde.txt', os.path.join('~', 'f.txt'), os.path.join('sub dir', 'sp ace.txt'), '\u00fcn\u00ef.txt', '%41.txt', 'a[1].txt', '#x', '$HOME', 'a*b?.txt', os.path.join('.', 'dot.txt'),
         os.path.join('sub dir', '..', 'up.txt'), os.path.abspath('abs.txt'), 'UPPER.TXT', 'noext', 'file.txt.bak', "q'uote.txt"]
exprs = ["Pregex('a')", "Capture(AnyLetter(is_global=True) if False else AnyLetter(), 'l') + Optional(AnyButWhitespace())", "MatchAtLineStart(AnyButFrom(' '))", "Pregex('\\u00e9')"]
for nm in names:
    try:
        with open(nm, 'w', encoding='utf-8', newline='') as fh:
            fh.write(content)
    except (OSError, UnicodeError):
        continue
    for ex in exprs:
        for comp in (False, True):
            p = eval(ex, dict(NS))
            if comp:
                p.compile()
            for meth, kw in (('get_matches_and_pos', {}), ('has_match', {}), ('is_exact_match', {}), ('get_captures', {}), ('replace', {'repl': '#', 'count': 2}), ('split_by_match', {}),
                             ('get_matches_with_context', {'n_left': 2, 'n_right': 2}), ('get_named_captures_and_pos', {'relative_to_match': True})):
                try:
                    a = getattr(p, meth)(nm, is_path=True, **kw)
                except Exception as e:
                    a = 'raised ' + type(e).__name__
                b = getattr(p, meth)(content, **kw)
                if a != b:
                    out.append([nm, ex, comp, meth, repr(a)[:80], repr(b)[:80]])
print(json.dumps(out))
'''


def _env14(run):
    """paths of every shape (relative, '~', spaces, non-ASCII, glob and shell metacharacters) and the locale: the answer for a path to a
    UTF-8 file is the answer for its content whatever the working directory, the file's name or the interpreter's default encoding"""
    n = 0
    for label, env in (('default', {}), ('C locale', {'LC_ALL': 'C', 'LANG': 'C', 'PYTHONUTF8': '0', 'PYTHONCOERCECLOCALE': '0'}),
                       ('latin-1 locale', {'LC_ALL': 'en_US.ISO-8859-1', 'PYTHONUTF8': '0', 'PYTHONCOERCECLOCALE': '0'}), ('utf8 mode', {'PYTHONUTF8': '1'}),
                       ('HOME elsewhere', {'HOME': '/nonexistent-home'})):
        r = common.run_py(_ENV14_CODE, env=env)
        if r.returncode != 0:
            if label == 'default':
                raise common.Internal('path/locale child failed: ' + r.stderr[-400:])
            continue      # an interpreter that cannot even start in that locale says nothing about pregex
        try:
            bad = json.loads(r.stdout.strip().splitlines()[-1])
        except Exception:  # noqa: BLE001
            continue
        n += 1
        for nm, ex, comp, meth, a, b in bad[:6]:
            run.add([V(f'C14|env|{label}|{nm}|{ex}|{meth}', f"[{label}] {ex}{' (compiled)' if comp else ''}: {meth}({nm!r}, is_path=True) = {a} but on the file's content it is {b}",
                       "import os, tempfile\nd = tempfile.mkdtemp()\nos.chdir(d)\nos.makedirs('~', exist_ok=True)\nos.makedirs('sub dir', exist_ok=True)\n"
                       f"content = 'ab \\u00e9a\\nb\\u03bb a\\u4e2d'\nopen({nm!r}, 'w', encoding='utf-8', newline='').write(content)\np = {ex}\n{'p.compile()' if comp else ''}\n"
                       f"assert repr(p.{meth}({nm!r}, is_path=True))[:80] == {b!r}",
                       environment=env)])
    run.count('path_and_locale_environments', n)
    return n


def run_C14(run):
    thorough = run.tier == 'thorough'
    L = 6 if thorough else 4
    contents = universe('é', L, base='ab\n')
    contents += ['ab\nba\n\naab\n', 'aé\nb/a\n', '@PATH@', 'a' * 12 + 'b' + 'a' * 12, '\n\n\n', 'ab ba\tab\n' * 3,
                 '\ufeffab', '\ufeff', 'a\ufeffb', ('ab ' * 40) + 'b', 'b' * 70 + 'a', '\x00a', 'a\x1ab', 'a\x85b\u2028a', ' a', 'a ', '\ta\x0bb\x0c']
    sizes = [(0, 0), (1, 0), (0, 1), (2, 2), (5, 5), (8, 8), (1, 8), (8, 1), (40, 40)]
    exprs = C14_PATTERNS if thorough else C14_PATTERNS[:9]
    tasks = [([e], c, sizes) for e in exprs for c in common.chunks(contents, max(1, len(contents) // 4 + 1))]
    tot = {}
    for viol, cnt in common.pmap(_task14, tasks):
        run.add(viol)
        for k, v in cnt.items():
            tot[k] = tot.get(k, 0) + v
    run.merge_counts(tot)
    _env14(run)
    run.sample({'pattern': exprs[2], 'method': 'get_captures_and_pos', 'kwargs': {'relative_to_match': True, 'is_path': True}, 'content': 'ab\nba\n\naab\n'})
    cov = {
        'states': tot['files'], 'transitions': tot['observations'],
        'traces_validated_against_impl': tot['observations'], 'evaluations': tot['observations'],
        'distinct_nontrivial': tot['files'],
        'rule': 'every public method with an is_path parameter (%d method/argument forms) x patterns x every file content over {a, b, \\n, é} of '
                'length <= %d plus multi-line, path-like and long contents; windows for %d (n_left, n_right) pairs incl. 0 and larger than the text; '
                'invalid window sizes' % (len(PATH_METHODS), L, len(sizes)),
        'exhaustive': True, 'bounds': {'patterns': len(exprs), 'content_length': L, 'window_sizes': sizes},
    }
    return cov, ['file contents avoid \\r so that text-mode newline translation is not in play',
                 'files live in a temporary directory created and removed by the check']
