"""C03, part 1: the API surface.  Every public constructor / builder method, each parameter with a small
domain that contains valid values and every *documented* kind of invalid one; the full product per
callable is executed.  Oracle: all arguments valid -> a Pregex that compiles and exports faithfully
(or a plain value for the matching API); some argument invalid -> one of the library's documented
exceptions for an invalid argument that is actually present; never any other exception."""
import contextlib
import io
import itertools
import re

from .. import common, dsl, monitors, rx
from ..common import V
from ..env import NS

T, VAL, NAME, FEW = ('InvalidArgumentTypeException', 'InvalidArgumentValueException',
                     'InvalidCapturingGroupNameException', 'NotEnoughArgumentsException')
OK = 'ok'

PRE = [("'a'", OK), ("StrSub('a.')", OK), ("Pregex('a')", OK), ("AnyDigit()", OK), ("'a.b'", OK), ("Either('a', 'b')", OK), ("Pregex()", OK),
       ("None", T), ("1", T), ("1.5", T), ("True", T), ("['a']", T), ("b'a'", T), ("('a', 'b')", T), ("()", T), ("{'a': 1}", T)]
PRE_NE = [x for x in PRE if x[0] != 'Pregex()']          # positions where the empty pattern has documented special meaning
BOOL = [("True", OK), ("False", OK)]
NAMES = [("'x'", OK), ("StrSub('x')", OK), ("'_a1'", OK), ("'A'", OK), ("''", NAME), ("'1a'", NAME), ("'a b'", NAME), ("'a-b'", NAME), ("'a\\n'", NAME),
         ("' a'", NAME), ("'a.'", NAME), ("'caf\u00e9'", OK), ("'x\u0661'", OK), ("'x\u00b2'", NAME), ("'x\u0301'", NAME), ("'\u00e9'", NAME), ("'a('", NAME), ("'(?P<x>'", NAME), ("1", T), ("True", T), ("1.5", T), ("['x']", T)]
NAMES_OPT = [("None", OK)] + NAMES
INT0 = [("0", OK), ("1", OK), ("2", OK), ("IntSub(2)", OK), ("-1", VAL), ("True", T), ("'1'", T), ("1.0", T), ("None", T)]
INT0N = [("0", OK), ("1", OK), ("3", OK), ("IntSub(3)", OK), ("None", OK), ("-1", VAL), ("True", T), ("'1'", T), ("1.5", T)]
REF = [("1", OK), ("IntSub(2)", OK), ("99", OK), ("0", VAL), ("100", VAL), ("-1", VAL), ("True", T), ("1.5", T), ("None", T), ("'n'", OK), ("'_x9'", OK),
       ("''", NAME), ("'1a'", NAME), ("'a\\n'", NAME), ("'a-b'", NAME), ("['n']", T)]
SRC = [("'ab a'", OK), ("''", OK), ("StrSub('ba')", OK)]


def callables():
    """-> list of (label, template, [domain,...])"""
    C = []
    C.append(('Pregex', 'Pregex({0}, True)', [[("'a'", OK), ("''", OK), ("'a.b'", OK), ("'[('", OK), ("None", T), ("1", T), ("b'a'", T), ("['a']", T)]]))
    C.append(('Pregex-noescape', 'Pregex({0}, False)', [[("'a'", OK), ("''", OK), ("'a|b'", OK), ("None", T), ("1", T)]]))
    C.append(('Pregex-default', 'Pregex({0})', [[("'a'", OK), ("'a.b'", OK), ("None", T), ("1.5", T)]]))
    C.append(('Pregex0', 'Pregex()', []))
    recv = "Pregex('a')"
    for m in ('optional', 'indefinite', 'one_or_more'):
        C.append((m, recv + '.%s({0})' % m, [BOOL]))
        C.append((m.title().replace('_', ''), {'optional': 'Optional', 'indefinite': 'Indefinite', 'one_or_more': 'OneOrMore'}[m] + '({0}, {1})', [PRE, BOOL]))
    C.append(('exactly', recv + '.exactly({0})', [INT0]))
    C.append(('Exactly', 'Exactly({0}, {1})', [PRE, INT0]))
    C.append(('at_least', recv + '.at_least({0}, {1})', [INT0, BOOL]))
    C.append(('AtLeast', 'AtLeast({0}, {1}, {2})', [PRE, INT0, BOOL]))
    C.append(('at_most', recv + '.at_most({0}, {1})', [INT0N, BOOL]))
    C.append(('AtMost', 'AtMost({0}, {1}, {2})', [PRE, INT0N, BOOL]))
    C.append(('at_least_at_most', recv + '.at_least_at_most({0}, {1}, {2})', [INT0, INT0N, BOOL]))
    C.append(('AtLeastAtMost', 'AtLeastAtMost({0}, {1}, {2})', [PRE, INT0, INT0N]))
    C.append(('mul', recv + ' * {0}', [INT0]))
    C.append(('rmul', '{0} * ' + recv, [INT0]))
    for m in ('concat', 'either'):
        C.append((m, recv + '.%s({0}, {1})' % m, [PRE, BOOL]))
    C.append(('enclose', recv + '.enclose({0})', [PRE]))
    C.append(('add', recv + ' + {0}', [PRE]))
    C.append(('radd', '{0} + ' + recv, [PRE]))
    for cls in ('Concat', 'Either'):
        C.append((cls + '0', cls + '()', []))
        C.append((cls + '1', cls + '({0})', [PRE]))
        C.append((cls + '2', cls + '({0}, {1})', [PRE, PRE]))
        C.append((cls + '3', cls + "('k', {0}, {1})", [PRE, PRE]))
    C.append(('Enclose1', 'Enclose({0})', [PRE]))
    C.append(('Enclose2', 'Enclose({0}, {1})', [PRE, PRE]))
    C.append(('Enclose3', "Enclose({0}, 'k', {1})", [PRE, PRE]))
    C.append(('capture', recv + '.capture({0})', [NAMES_OPT]))
    C.append(('Capture', 'Capture({0}, {1})', [PRE, NAMES_OPT]))
    C.append(('Capture1', 'Capture({0})', [PRE]))
    C.append(('group', recv + '.group({0})', [BOOL]))
    C.append(('Group', 'Group({0}, {1})', [PRE, BOOL]))
    C.append(('Backreference', 'Backreference({0})', [REF]))
    C.append(('Conditional2', 'Conditional({0}, {1})', [NAMES, PRE]))
    C.append(('Conditional3', "Conditional('n', {0}, {1})", [PRE, [(s_, OK if s_ == 'None' else k_) for s_, k_ in PRE]]))
    for m, cls in (('match_at_start', 'MatchAtStart'), ('match_at_end', 'MatchAtEnd'), ('match_at_line_start', 'MatchAtLineStart'),
                   ('match_at_line_end', 'MatchAtLineEnd')):
        C.append((m, recv + '.%s()' % m, []))
        C.append((cls, cls + '({0})', [PRE]))
    C.append(('WordBoundary', 'WordBoundary()', []))
    C.append(('NonWordBoundary', 'NonWordBoundary()', []))
    for m, cls in (('followed_by', 'FollowedBy'), ('preceded_by', 'PrecededBy'), ('enclosed_by', 'EnclosedBy')):
        C.append((m, recv + '.%s({0})' % m, [PRE]))
        C.append((cls + '1', cls + '({0})', [[(s, FEW if k == OK else k) for s, k in PRE[:4]] + [("None", FEW)]]))
        C.append((cls + '2', cls + '({0}, {1})', [PRE, PRE]))
        C.append((cls + '3', cls + "({0}, 'k', {1})", [PRE, PRE]))
        C.append((cls + '0', cls + '()', None))
    for m, cls in (('not_followed_by', 'NotFollowedBy'), ('not_preceded_by', 'NotPrecededBy'), ('not_enclosed_by', 'NotEnclosedBy')):
        neg = [(s, 'EmptyNegativeAssertionException' if s == 'Pregex()' else k) for s, k in PRE]
        C.append((m, recv + '.%s({0})' % m, [neg]))
        C.append((cls + '1', cls + '({0})', [[(s, FEW if k == OK else k) for s, k in PRE[:4]] + [("None", FEW)]]))
        C.append((cls + '2', cls + '({0}, {1})', [PRE, neg]))
        C.append((cls + '3', cls + "({0}, 'k', {1})", [PRE, neg]))
        C.append((cls + '0', cls + '()', None))
    # classes and tokens without arguments, AnyWordChar flags
    import mc.env as env
    for name in sorted(dir(env.classes)):
        if name.startswith('Any') and name not in ('AnyFrom', 'AnyButFrom', 'AnyBetween', 'AnyButBetween', 'AnyWordChar', 'AnyButWordChar'):
            C.append((name, name + '()', []))
    for name in ('AnyWordChar', 'AnyButWordChar'):
        C.append((name, name + '({0})', [BOOL]))
        C.append((name + '0', name + '()', []))
    for name in sorted(dir(env.tokens)):
        if not name.startswith('_'):
            C.append((name, name + '()', []))
    # meta patterns
    for name in ('Text', 'NonWhitespace', 'Whitespace'):
        C.append((name, name + '({0})', [BOOL]))
    WMIN = [("1", OK), ("2", OK), ("IntSub(1)", OK), ("IntSub(2)", OK), ("0", VAL), ("-1", VAL), ("'1'", T), ("1.5", T), ("None", T)]
    WMAX = [("2", OK), ("None", OK), ("5", OK), ("IntSub(3)", OK), ("0", VAL), ("-3", VAL), ("'2'", T), ("2.5", T)]
    C.append(('Word', 'Word({0}, {1}, {2}, {3})', [WMIN, WMAX, BOOL, BOOL]))
    AFF = [("'ab'", OK), ("StrSub('ab')", OK), ("['a', 'b.c']", OK), ("'a|b'", OK), ("1", T), ("None", T), ("['a', 1]", T), ("[None]", T), ("[['a']]", T)]
    for name in ('WordContains', 'WordStartsWith', 'WordEndsWith'):
        C.append((name, name + '({0}, {1}, {2})', [AFF, BOOL, BOOL]))
    BASE = [("2", OK), ("10", OK), ("16", OK), ("IntSub(8)", OK), ("1", VAL), ("17", VAL), ("0", VAL), ("-2", VAL), ("'2'", T), ("2.0", T), ("None", T)]
    NMIN = [("0", OK), ("1", OK), ("IntSub(1)", OK), ("-1", VAL), ("True", T), ("'1'", T), ("1.5", T), ("None", T)]
    NMAX = [("1", OK), ("4", OK), ("None", OK), ("IntSub(2)", OK), ("-1", VAL), ("True", T), ("'1'", T), ("1.5", T)]
    C.append(('Numeral', 'Numeral({0}, {1}, {2}, {3})', [BASE, NMIN, NMAX, BOOL]))
    ST = [("0", OK), ("5", OK), ("IntSub(3)", OK), ("-1", VAL), ("'1'", T), ("1.5", T), ("None", T)]
    EN = [("9", OK), ("123", OK), ("IntSub(45)", OK), ("'9'", T), ("9.5", T), ("None", T)]
    C.append(('Integer', 'Integer({0}, {1}, {2}, {3})', [ST, EN, BOOL, BOOL]))
    for name in ('PositiveInteger', 'NegativeInteger', 'UnsignedInteger'):
        C.append((name, name + '({0}, {1}, {2})', [ST, EN, BOOL]))
    MIN = [("1", OK), ("2", OK), ("0", VAL), ("-1", VAL), ("True", T), ("'1'", T), ("1.0", T), ("None", T)]
    MAX = [("2", OK), ("None", OK), ("3", OK), ("IntSub(3)", OK), ("True", T), ("'2'", T), ("2.5", T)]
    C.append(('Decimal', 'Decimal({0}, {1}, {2}, {3}, {4}, {5})', [ST[:4], EN[:4], MIN, MAX, BOOL, BOOL]))
    for name in ('PositiveDecimal', 'NegativeDecimal', 'UnsignedDecimal'):
        C.append((name, name + '({0}, {1}, {2}, {3}, {4})', [ST[:4], EN[:4], MIN, MAX, BOOL]))
    FMT = [("'dd/mm/yyyy'", OK), ("StrSub('d/m/yy')", OK), ("['d-m-yy', 'yyyy/mm/dd']", OK), ("None", OK), ("'dd.mm.yyyy'", VAL), ("''", VAL), ("'DD/MM/YYYY'", VAL),
           ("['dd/mm/yyyy', 'x']", VAL), ("[5]", VAL), ("['dd/mm/yyyy', None]", VAL), ("5", VAL), ("20210131", VAL), ("[[]]", VAL)]
    C.append(('Date', 'Date({0}, {1})', [FMT, BOOL]))
    C.append(('IPv4', 'IPv4({0})', [BOOL]))
    C.append(('IPv6', 'IPv6({0})', [BOOL]))
    C.append(('Email', 'Email({0}, {1}, {2})', [BOOL, BOOL, BOOL]))
    C.append(('HttpUrl', 'HttpUrl({0}, {1})', [BOOL, BOOL]))
    # matching / exporting API on a fixed receiver
    R = "(Capture('a', 'x') + Optional(Capture('b')))"
    C.append(('get_pattern', R + '.get_pattern({0})', [BOOL]))
    C.append(('print_pattern', R + '.print_pattern({0})', [BOOL]))
    C.append(('get_compiled_pattern', R + '.get_compiled_pattern({0})', [BOOL]))
    C.append(('compile', R + '.compile()', []))
    C.append(('purge', 'Pregex.purge()', []))
    for m in ('has_match', 'is_exact_match', 'get_matches', 'get_matches_and_pos', 'split_by_match'):
        C.append((m, R + '.%s({0})' % m, [SRC]))
    for m in ('iterate_matches', 'iterate_matches_and_pos'):
        C.append((m, 'list(' + R + '.%s({0}))' % m, [SRC]))
    for m in ('get_captures', 'get_named_captures', 'split_by_capture'):
        C.append((m, R + '.%s({0}, {1})' % m, [SRC, BOOL]))
    for m in ('iterate_captures', 'iterate_named_captures'):
        C.append((m, 'list(' + R + '.%s({0}, {1}))' % m, [SRC, BOOL]))
    for m in ('get_captures_and_pos', 'get_named_captures_and_pos'):
        C.append((m, R + '.%s({0}, {1}, {2})' % m, [SRC, BOOL, BOOL]))
    for m in ('iterate_captures_and_pos', 'iterate_named_captures_and_pos'):
        C.append((m, 'list(' + R + '.%s({0}, {1}, {2}))' % m, [SRC, BOOL, BOOL]))
    WIN = [("0", OK), ("2", OK), ("50", OK), ("IntSub(1)", OK), ("-1", VAL), ("True", T), ("1.5", T), ("'1'", T), ("None", T)]
    C.append(('get_matches_with_context', R + '.get_matches_with_context({0}, {1}, {2})', [SRC, WIN, WIN]))
    C.append(('iterate_matches_with_context', 'list(' + R + '.iterate_matches_with_context({0}, {1}, {2}))', [SRC, WIN, WIN]))
    CNT = [("0", OK), ("1", OK), ("5", OK), ("IntSub(1)", OK), ("-1", VAL), ("-7", VAL)]
    C.append(('replace', R + ".replace({0}, {1}, {2})", [SRC, [("'X'", OK), ("''", OK)], CNT]))
    return C


_C03 = monitors.C03()


class _Tr:
    """a minimal transition record so that monitors.C03.check_value can be reused"""

    def __init__(self, expr):
        self.expr = expr
        self.op = dsl.Op('call', (), 0, [('call', expr)], None, 'call')
        self.operands = []
        self.ref = None


class _Acc:
    def __init__(self):
        self.viol, self.counts = [], {}

    def count(self, k, n=1):
        self.counts[k] = self.counts.get(k, 0) + n


def _task(arg):
    dsl.setup_worker()
    viol = []
    cnt = {'calls': 0, 'valid_calls': 0, 'invalid_calls': 0, 'values_checked': 0}
    P = NS['Pregex']
    for label, tmpl, domains in arg:
        if domains is None:
            continue
        for combo in itertools.product(*domains):
            expr = tmpl.format(*[c[0] for c in combo])
            kinds = [c[1] for c in combo if c[1] != OK]
            if label in ('at_least_at_most', 'AtLeastAtMost') and not kinds:
                # inverted bounds are a documented value error
                n_, m_ = (combo[0][0], combo[1][0]) if label == 'at_least_at_most' else (combo[1][0], combo[2][0])
                if m_ != 'None' and eval(m_, dict(NS)) < eval(n_, dict(NS)):
                    kinds = [VAL]
            cnt['calls'] += 1
            try:
                code = compile(expr, '<api>', 'eval')
                with contextlib.redirect_stdout(io.StringIO()):
                    val = eval(code, dict(NS))
                out = ('ok', val)
            except Exception as e:  # noqa: BLE001
                out = ('raise', e)
            if not kinds:
                cnt['valid_calls'] += 1
                if out[0] == 'raise':
                    viol.append(V(f'C03|api|{expr}|raised:{type(out[1]).__name__}',
                                  f"{expr}: all arguments are valid but it raised {type(out[1]).__name__}: {str(out[1])[:100]}",
                                  'r = ' + expr))
                elif isinstance(out[1], P):
                    tr = _Tr(expr)
                    acc = _Acc()
                    _C03.check_value(tr, 'call', out[1], acc)
                    cnt['values_checked'] += 1
                    for v in acc.viol:
                        v['key'] = v['key'].replace('C03|call|', 'C03|api|' + expr + '|', 1)
                        v['code'] = v['code'].replace('r = call', 'r = ' + expr)
                    viol.extend(acc.viol)
            else:
                cnt['invalid_calls'] += 1
                if out[0] == 'ok':
                    viol.append(V(f'C03|api|{expr}|accepted',
                                  f"{expr}: invalid argument(s) ({', '.join(sorted(set(kinds)))} expected) but it returned {str(out[1])[:60]!r}",
                                  f"try:\n    r = {expr}\nexcept ({', '.join(sorted(set(kinds)))}):\n    pass\nelse:\n    raise AssertionError('accepted')"))
                else:
                    name = type(out[1]).__name__
                    allowed = set(kinds)
                    if not (name in allowed and dsl.is_lib_exc(out[1])):
                        viol.append(V(f'C03|api|{expr}|raised:{name}',
                                      f"{expr}: expected {'/'.join(sorted(allowed))}, got {name}: {str(out[1])[:100]}",
                                      f"try:\n    r = {expr}\nexcept ({', '.join(sorted(allowed))}):\n    pass\nelse:\n    raise AssertionError('accepted')"))
    return viol, cnt


def run_surface(run):
    cs = callables()
    sizes = []
    for label, tmpl, domains in cs:
        n = 1
        for d in (domains or []):
            n *= len(d)
        sizes.append(n)
    # split big products across workers by callable
    tasks = [[c] for c in cs]
    tot = {}
    for viol, cnt in common.pmap(_task, tasks):
        run.add(viol)
        for k, v in cnt.items():
            tot[k] = tot.get(k, 0) + v
    tot['callables'] = len([c for c in cs if c[2] is not None])
    return tot
