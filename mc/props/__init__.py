REGISTRY = {
    'C01': 'c01', 'C04': 'c04', 'C06': 'cls', 'C07': 'cls', 'C11': 'api', 'C12': 'api', 'C13': 'api', 'C14': 'api', 'C15': 'numeric', 'C16': 'numeric', 'C17': 'lang', 'C18': 'lang', 'C19': 'lang', 'C02': 'graph', 'C08': 'graph', 'C03': 'graph', 'C05': 'graph', 'C09': 'graph', 'C10': 'graph', 'C20': 'c20',
}
