REGISTRY = {
    'C02': 'graph', 'C03': 'graph', 'C05': 'graph', 'C09': 'graph', 'C10': 'graph', 'C20': 'graph',
}
