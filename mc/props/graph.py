"""Properties decided on the DSL value graph: C02 C03 C05 C09 C10 C20 (+ parts of C01 C04 C08)."""
from .. import alphabet as al, dsl, explore, monitors, rx


def phases_for(tier):
    """-> list of (atoms, levels, nested_tail)"""
    q, gq, an, bi = dsl.quantifier_ops(), dsl.group_ops(), dsl.anchor_ops(), dsl.binary_ops()
    co = dsl.cond_ops()
    an = an + co[:1]
    bi = bi + co[1:]
    cq = dsl.core_quantifier_ops()
    core, small, tiny = al.core_atoms(), al.small_atoms(), al.tiny_atoms()
    L = explore.Level
    if tier == 'quick':
        return [
            (core, [L(q + gq + an, bi, core, (0, 1), 'wide depth 1: all ops, core x core atoms')], False),
            (small, [L(q + gq + an, bi, small, (0, 1), 'deep depth 1: all ops, small x small atoms'),
                     L(cq + gq + an, bi, tiny, (0, 1), 'deep depth 2: core quantifiers, groups, anchors; '
                       'binary ops with the tiny atoms on both sides')], False),
        ]
    return [
        (core, [L(q + gq + an, bi, core, (0, 1), 'wide depth 1: all ops, core x core atoms'),
                L(q + gq + an, bi, small, (0, 1), 'wide depth 2: all ops; binary ops with the small atoms on both sides')], False),
        (small, [L(q + gq + an, bi, small, (0, 1), 'deep depth 1: all ops, small x small atoms'),
                 L(cq + gq + an, bi, tiny, (0, 1), 'deep depth 2: core quantifiers, groups, anchors; binary ops with tiny atoms'),
                 L(cq[:6] + gq[:1] + an[:1] + an[3:], bi[:2] + bi[3:4] + bi[5:6], tiny[:5], (0, 1),
                   'deep depth 3 (nested in the workers): 6 quantifiers, capture, 2 anchors; '
                   'concat/either/followed_by/preceded_by with 5 atoms')], True),
    ]


def _run(run, mons):
    phases = phases_for(run.tier)
    hashes, viol, counts, samples, outcomes, names, bounds, per = set(), [], {}, [], set(), [], [], []
    for atoms, levels, nested in phases:
        res = explore.run([dsl.atom(e, l) for e, l in atoms], levels, mons, nested_tail=nested)
        hashes |= res['hashes']
        viol.extend(res['violations'])
        for k, v in res['counts'].items():
            counts[k] = counts.get(k, 0) + v
        samples.extend(res['samples'][:6])
        outcomes |= set(res['outcomes'])
        names.extend(l.name for l in levels)
        per.append(res['states_per_level'])
        bounds.append({'atoms': len(atoms), 'levels': [
            {'unary_ops': len(l.unary), 'binary_ops': len(l.binary), 'partners': len(l.partners)} for l in levels]})
    run.add(viol)
    run.merge_counts(counts)
    cov = {
        'states': len(hashes) + counts.get('tail_states_local', 0),
        'states_exact_distinct_below_tail_level': len(hashes),
        'transitions': counts.get('transitions', 0),
        'traces_validated_against_impl': counts.get('executions', 0),
        'evaluations': counts.get('executions', 0),
        'distinct_nontrivial': len(hashes),
        'states_per_level': per,
        'distinct_outcomes': sorted(outcomes),
        'samples': samples,
        'rule': 'explicit-state BFS over the DSL value graph, de-duplicated on (kind, emitted text, class attributes); '
                'every transition executes the real operation in all its spellings on real objects and is judged '
                'against the reference composition of its operands; levels: ' + ' / '.join(names),
        'exhaustive': True,
        'bounds': bounds,
    }
    if len(outcomes) < 2:
        raise Exception('vacuous exploration: a single outcome kind')
    assumptions = ['CPython re and re._parser are the trusted reader/executor of regex syntax',
                   'equal parse-tree normal forms compile to identical programs; otherwise all texts over a '
                   'derived alphabet up to the stated length are compared',
                   'states with equal canonical key have equal futures (DESIGN.md 1.2)']
    return cov, assumptions


def run_C02(run):
    return _run(run, [monitors.C02(1500 if run.tier == 'quick' else 6000)])


def run_C03(run):
    from . import apisurf
    cov, assumptions = _run(run, [monitors.C03()])
    tot = apisurf.run_surface(run)
    run.merge_counts({'api_' + k: v for k, v in tot.items()})
    cov['transitions'] += tot['calls']
    cov['traces_validated_against_impl'] += tot['calls']
    cov['evaluations'] += tot['calls']
    cov['rule'] += ' || API surface: the full product of small per-parameter domains (valid values and every documented kind of invalid one) for ' \
                   f"{tot['callables']} public callables"
    cov['samples'] = cov['samples'][:8] + [{'api_call': "Capture('a', 'a\\n')", 'expected': 'InvalidCapturingGroupNameException'},
                                            {'api_call': "AtLeastAtMost('a', 2, 1)", 'expected': 'InvalidArgumentValueException'}]
    return cov, assumptions + ['argument domains are written from the docstrings :param:/:raises: sections; Python-level arity errors are out of scope']


def run_C05(run):
    return _run(run, [monitors.C05()])


def run_C09(run):
    return _run(run, [monitors.C09()])


def run_C10(run):
    return _run(run, [monitors.C10()])


def run_C20(run):
    return _run(run, [monitors.C20()])


def run_C08(run):
    """the graph restricted to grouping operations, to depth 4 (5)"""
    L = explore.Level
    gq = dsl.group_ops() + [dsl.Op('capture', ('y',), 1, [('method', "({0}).capture('y')"), ('class', "Capture({0}, 'y')")], None, 'group')]
    opt = [o for o in dsl.quantifier_ops() if o.name == 'optional' and o.params == (True,)]
    cat = [o for o in dsl.binary_ops() if o.name in ('concat', 'either')]
    partners = [("Pregex('b')", 'b'), ("Capture('c')", None), ("Capture('c', 'z')", None)]
    atoms = al.atom_list(['a', '(', ')', '?:', '?P<', '(?P<x>', '(?i:', '(a)', '(?:a)', 'A'],
                         ["AnyLetter()", "AnyButFrom(')')", "AnyFrom('(', 'a')", "OneOrMore(AnyButFrom(')'))", "AnyFrom('?', ':')", "Either('a', 'B')", "FollowedBy(Pregex(), 'b')", "NotPrecededBy(Pregex(), 'b')",
                          "FollowedBy('a', 'b')", "Conditional('n', 'a')", "Conditional('n', 'a', 'B')", 'Backreference(1)',
                          "Backreference('n')", "Capture('a')", "Capture('a', 'x')", "Group('a', True)", "Group('aB')", 'Pregex()'])
    depth = 4 if run.tier == 'quick' else 5
    levels = [L(gq + opt, cat[:1] if i else cat, partners, (0, 1), f'depth {i + 1}: capture()/capture(x)/capture(y)/group()/group(True)/optional, concat with b, (c), (?P<z>c)')
              for i in range(depth)]
    res = explore.run([dsl.atom(e, l) for e, l in atoms], levels, [monitors.C08()], nested_tail=(run.tier != 'quick'))
    run.add(res['violations'])
    run.merge_counts(res['counts'])
    cov = {
        'states': len(res['hashes']) + res['counts'].get('tail_states_local', 0),
        'transitions': res['counts'].get('transitions', 0),
        'traces_validated_against_impl': res['counts'].get('executions', 0),
        'evaluations': res['counts'].get('executions', 0),
        'distinct_nontrivial': len(res['hashes']),
        'states_per_level': res['states_per_level'],
        'samples': res['samples'],
        'rule': 'explicit-state BFS over the DSL value graph restricted to grouping operations; the result tree of every '
                'capture()/group() transition is predicted from the operand tree by the documented rules and compared '
                '(tree equality, else all texts over a derived alphabet incl. group spans)',
        'exhaustive': True,
        'bounds': {'depth': depth, 'atoms': len(atoms), 'ops_per_state': len(gq) + 1 + 2 * len(partners)},
    }
    return cov, ['CPython re._parser is the trusted reader of group structure',
                 'expressions that define the same group name twice are out of scope']
