"""Properties decided on the DSL value graph: C02 C03 C05 C09 C10 C20 (+ parts of C01 C04 C08)."""
from .. import alphabet as al, dsl, env, explore, monitors, rx
from ..common import V


def phases_for(tier):
    """-> list of (atoms, levels, nested_tail)"""
    q, gq, an, bi = dsl.quantifier_ops(), dsl.group_ops(), dsl.anchor_ops(), dsl.binary_ops()
    co = dsl.cond_ops()
    an = an + co[:1]
    bi = bi + co[1:]
    cq = dsl.core_quantifier_ops()
    core, small, tiny = al.core_atoms(), al.small_atoms(), al.tiny_atoms()
    L = explore.Level
    conf = (al.confuser_atoms(), [L(q + gq + an, bi, small, (0, 1), 'type-confusing composite operands: all ops, small partners')], False)
    if tier == 'quick':
        return [conf,
            (core, [L(q + gq + an, bi, core, (0, 1), 'wide depth 1: all ops, core x core atoms')], False),
            (small, [L(q + gq + an, bi, small, (0, 1), 'deep depth 1: all ops, small x small atoms'),
                     L(cq + gq + an, bi, tiny, (0, 1), 'deep depth 2: core quantifiers, groups, anchors; '
                       'binary ops with the tiny atoms on both sides')], False),
        ]
    return [
        conf,
        (core, [L(q + gq + an, bi, core, (0, 1), 'wide depth 1: all ops, core x core atoms'),
                L(q + gq + an, bi, tiny, (0, 1), 'wide depth 2: all unary ops; binary ops with the tiny atoms on both sides')], False),
        (small, [L(q + gq + an, bi, small, (0, 1), 'deep depth 1: all ops, small x small atoms'),
                 L(cq + gq + an, bi, tiny, (0, 1), 'deep depth 2: core quantifiers, groups, anchors; binary ops with tiny atoms'),
                 L(cq[:4] + gq[:1] + an[:1], bi[:2], tiny[:3], (0, 1),
                   'deep depth 3 (nested in the workers): 4 quantifiers, capture, one anchor; concat/either with 3 atoms')], True),
    ]


def _run(run, mons, extra_phases=(), shallow=False):
    phases = phases_for(run.tier) + list(extra_phases)
    if shallow and run.tier == 'quick':
        # C20 has its own history search; of the graph it keeps the wide phase and the first deep level
        phases = [(atoms, levels[:1], nested) for atoms, levels, nested in phases]
    hashes, viol, counts, samples, outcomes, names, bounds, per = set(), [], {}, [], set(), [], [], []
    for atoms, levels, nested in phases:
        res = explore.run(dsl.safe_atoms(atoms, run), levels, mons, nested_tail=nested)
        hashes |= res['hashes']
        viol.extend(res['violations'])
        for k, v in res['counts'].items():
            counts[k] = counts.get(k, 0) + v
        samples.extend(res['samples'][:6])
        outcomes |= set(res['outcomes'])
        names.extend(l.name for l in levels)
        per.append(res['states_per_level'])
        bounds.append({'atoms': len(atoms), 'levels': [
            {'unary_ops': len(l.unary), 'binary_ops': len(l.binary), 'partners': len(l.partners)} for l in levels]})
    run.add(viol)
    run.merge_counts(counts)
    cov = {
        'states': len(hashes) + counts.get('tail_states_local', 0),
        'states_exact_distinct_below_tail_level': len(hashes),
        'transitions': counts.get('transitions', 0),
        'traces_validated_against_impl': counts.get('executions', 0),
        'evaluations': counts.get('executions', 0),
        'distinct_nontrivial': len(hashes),
        'states_per_level': per,
        'distinct_outcomes': sorted(outcomes),
        'samples': samples,
        'rule': 'explicit-state BFS over the DSL value graph, de-duplicated on (kind, emitted text, class attributes); '
                'every transition executes the real operation in all its spellings on real objects and is judged '
                'against the reference composition of its operands; levels: ' + ' / '.join(names),
        'exhaustive': True,
        'bounds': bounds,
    }
    if len(outcomes) < 2:
        raise Exception('vacuous exploration: a single outcome kind')
    assumptions = ['CPython re and re._parser are the trusted reader/executor of regex syntax',
                   'equal parse-tree normal forms compile to identical programs; otherwise all texts over a '
                   'derived alphabet up to the stated length are compared',
                   'states with equal canonical key have equal futures (DESIGN.md 1.2)']
    return cov, assumptions


FOLD_CLASSES = ['Concat', 'Either', 'Enclose', 'FollowedBy', 'NotFollowedBy', 'PrecededBy', 'NotPrecededBy', 'EnclosedBy', 'NotEnclosedBy']
FOLD_METHOD = {'Concat': 'concat', 'Either': 'either', 'Enclose': 'enclose', 'FollowedBy': 'followed_by', 'NotFollowedBy': 'not_followed_by',
               'PrecededBy': 'preceded_by', 'NotPrecededBy': 'not_preceded_by', 'EnclosedBy': 'enclosed_by', 'NotEnclosedBy': 'not_enclosed_by'}


def _task_fold(arg):
    """class forms of arity 3 and 4 must equal the chained method calls (documented as folding left to right)"""
    from ..common import V
    dsl.setup_worker()
    viol, n = [], 0
    for cls, combo in arg:
        args = ', '.join(combo)
        chain = '(Pregex(%s))' % combo[0] if combo[0][0] in '\'"' else '(%s)' % combo[0]
        if any(c == 'Pregex()' for c in combo[1:]) and cls.startswith('Not'):
            continue
        for c in combo[1:]:
            chain = '(%s.%s(%s))' % (chain, FOLD_METHOD[cls], c)
        outs = []
        for src in (f'{cls}({args})', chain):
            try:
                outs.append(('ok', str(dsl.build(src))))
            except Exception as e:  # noqa: BLE001
                outs.append(('raise', type(e).__name__))
        n += 1
        a, b = outs
        same = a == b or (a[0] == b[0] == 'ok' and rx.equiv(a[1], b[1])[0] in ('tree', 'texts'))
        if not same:
            viol.append(V(f'C02|fold|{cls}({args})', f"{cls}({args}) -> {a!r} but the chained form {chain} -> {b!r}",
                          f"from mc import rx\na = {cls}({args})\nb = {chain}\nassert rx.equiv(str(a), str(b))[0] in ('tree', 'texts'), (str(a), str(b))"))
    return viol, n


def run_C02(run):
    import itertools
    from .. import common
    cov, assumptions = _run(run, [monitors.C02(1500 if run.tier == 'quick' else 6000), monitors.C02Groups()])
    atoms = [e for e, _ in al.tiny_atoms()] + ["'a|b'", "'['", "Capture('c')", "Optional('a')", "'a+'", "OneOrMore('a')", "'a\\\\|b'"]
    a4 = ["'a'", "Pregex()", "Either('a', 'b')", "'c|'"] if run.tier == 'quick' else atoms[:6]
    cases = [(cls, combo) for cls in FOLD_CLASSES for combo in itertools.product(atoms, repeat=3)]
    cases += [(cls, combo) for cls in FOLD_CLASSES for combo in itertools.product(a4, repeat=4)]
    cases += [(cls, combo) for cls in ('Concat', 'Either', 'Enclose') for combo in itertools.product(a4[:3], repeat=5)]
    n = 0
    for viol, k in common.pmap(_task_fold, common.chunks(cases, 400)):
        run.add(viol)
        n += k
    run.count('fold_cases', n)
    cov['transitions'] += n
    cov['traces_validated_against_impl'] += 2 * n
    cov['rule'] += f' || class forms of arity 3 over {len(atoms)} atoms, arity 4 over {len(a4)} and arity 5 over 3 must equal the left-to-right chain of method calls'
    return cov, assumptions


def _task_algebra(exprs):
    from ..common import V
    dsl.setup_worker()
    viol, n = [], 0
    for e in exprs:
        n += 1
        try:
            r = dsl.build(e)
            bad = None if rx.compiles(str(r))[0] else 'returned %r which re rejects' % str(r)
            if bad is None:
                ex = r.get_pattern()
                if not ex.isprintable() or rx.equiv(ex, str(r))[0] not in ('tree', 'texts'):
                    bad = 'exported text %r is not printable / not equivalent to %r' % (ex, str(r))
        except Exception as ex_:  # noqa: BLE001
            bad = None if dsl.is_lib_exc(ex_) else 'raised ' + type(ex_).__name__ + ': ' + str(ex_)[:80]
        if bad:
            viol.append(V(f'C03|algebra|{e}', f"{e}: {bad}",
                          f"from mc import rx, dsl\ntry:\n    r = {e}\nexcept Exception as e:\n    assert dsl.is_lib_exc(e), repr(e)\nelse:\n    assert rx.compiles(str(r))[0], str(r)",
                          order_sensitive=True))
    return viol, n


def run_C03(run):
    from . import apisurf
    cov, assumptions = _run(run, [monitors.C03()])
    tot = apisurf.run_surface(run)
    run.merge_counts({'api_' + k: v for k, v in tot.items()})
    cov['transitions'] += tot['calls']
    cov['traces_validated_against_impl'] += tot['calls']
    cov['evaluations'] += tot['calls']
    cov['rule'] += ' || API surface: the full product of small per-parameter domains (valid values and every documented kind of invalid one) for ' \
                   f"{tot['callables']} public callables"
    from . import kwforms
    nkw = kwforms.run(run)
    cov['transitions'] += nkw
    cov['traces_validated_against_impl'] += nkw
    cov['rule'] += f' || keyword spellings: {nkw} calls - every public callable by documented parameter names, in reverse order and for every positional/keyword split, against the positional call'
    from . import cls as clsmod
    from .. import common
    reg, neg, other, core = clsmod.c07_atoms(run.tier)
    edge = [c for c in reg if '\\x00' in c or '\\U0010ff' in c or '\\ud7ff' in c] + ["'\\x00'", "'\\U0010ffff'", "'\\x01'"]
    exprs = [f"({a}) {op} ({b})" for a in reg + neg for b in core + other[:9] + edge for op in '|-'] + [f"~({c})" for c in reg + neg] \
        + [f"({o}) {op} ({c})" for o in other[:9] for c in core if c.startswith('Any') for op in '|-']
    nalg = 0
    for viol, k in common.pmap(_task_algebra, common.chunks(exprs, 600)):
        run.add(viol)
        nalg += k
    run.count('class_algebra_calls', nalg)
    cov['transitions'] += nalg
    cov['traces_validated_against_impl'] += nalg
    cov['rule'] += f' || class algebra: {nalg} expressions A|B, A-B, ~A over all C07 atoms (incl. U+0000 / U+10FFFF end points) must raise a library exception or return a compilable class'
    cov['samples'] = cov['samples'][:8] + [{'api_call': "Capture('a', 'a\\n')", 'expected': 'InvalidCapturingGroupNameException'},
                                            {'api_call': "AtLeastAtMost('a', 2, 1)", 'expected': 'InvalidArgumentValueException'}]
    return cov, assumptions + ['argument domains are written from the docstrings :param:/:raises: sections; Python-level arity errors are out of scope']


WAYS_OF_EMPTY = ['Pregex()', "Pregex('')", "Exactly('a', 0)", "Pregex('a') * 0", "0 * Pregex('a')", 'Concat()', 'Either()', "AtMost('a', 0)",
                 "AtLeastAtMost('a', 0, 0)", "Concat(Pregex(), Pregex())", "Either(Pregex(), Pregex())", "Enclose(Pregex(), Pregex())",
                 "Group(Pregex())", "Group(Pregex(), True)", "Capture(Pregex(), 'n')", "Optional(Pregex(), False)", "Indefinite(Concat())",
                 "FollowedBy(Pregex(), Pregex())", "PrecededBy(Pregex(), Pregex())", "EnclosedBy(Concat(), Either())", "Pregex() + ''",
                 "'' + Pregex()", "Concat('')", "Exactly(AnyDigit(), 0)", "Exactly(Either('a', 'b'), 0)", "AtMost(Capture('a'), 0)",
                 "Pregex('', escape=False)", "Exactly(MatchAtStart('a'), 0)"]


def run_C05(run):
    q, gq, an, bi = dsl.quantifier_ops(), dsl.group_ops(), dsl.anchor_ops(), dsl.binary_ops()
    ways = al.atom_list([], WAYS_OF_EMPTY)
    partners = al.atom_list(['', 'a', 'a|b', 'a.b'], ['Pregex()', 'Concat()', "Exactly('a', 0)", 'AnyDigit()', "Either('a', 'b')"])
    L = explore.Level
    extra = [(ways, [L(q + gq + an, bi + dsl.cond_ops()[1:], partners, (0, 1), 'ways of being empty, depth 1: all ops'),
                     L(dsl.core_quantifier_ops() + gq, bi, partners[:5], (0, 1), 'ways of being empty, depth 2')], False)]
    cov, assumptions = _run(run, [monitors.C05()], extra)
    # every way of being empty reaches the single canonical empty state
    from ..common import V
    for e in WAYS_OF_EMPTY:
        try:
            o = dsl.build(e)
            ok = str(o) == '' and o._get_type() == env.pre._Type.Empty and o.get_pattern() == ''
        except Exception:  # noqa: BLE001
            ok = False
        if not ok:
            run.add([V(f'C05|way-of-empty|{e}', f"{e} is not the canonical empty pattern",
                       f"o = {e}\nassert str(o) == '' and o._get_type() == pre._Type.Empty")])
    run.count('ways_of_being_empty', len(WAYS_OF_EMPTY))
    # n-ary class forms: empty operands in any (later) position are dropped
    import itertools
    n = 0
    for cls in ('Concat', 'Either', 'Enclose'):
        for k in (2, 3, 4, 5, 6):
            for combo in itertools.product(["'a'", 'Pregex()', "'b|'", "Concat()", "''"] if k <= 4 else ["'a'", 'Pregex()', "''"], repeat=k):
                if cls in ('Either', 'Enclose') and combo[0] in ('Pregex()', 'Concat()', "''"):
                    continue      # empty first alternative / enclosing nothing: left open
                kept = [c for c in combo if c not in ('Pregex()', 'Concat()', "''")]
                if len(kept) == len(combo):
                    continue
                full, reduced = f"{cls}({', '.join(combo)})", f"{cls}({', '.join(kept)})"
                n += 1
                try:
                    a, b = str(dsl.build(full)), str(dsl.build(reduced))
                    ok = a == b or ((a == '') == (b == '') and rx.equiv(a, b)[0] in ('tree', 'texts'))
                except Exception as e:  # noqa: BLE001
                    a, b, ok = repr(e), '', False
                if not ok:
                    run.add([V(f'C05|nary|{full}', f"{full} -> {a!r} but with the empty operands removed {reduced} -> {b!r}",
                               f"from mc import rx\na = str({full})\nb = str({reduced})\n"
                               f"assert a == b or ((a == '') == (b == '') and rx.equiv(a, b)[0] in ('tree', 'texts')), (a, b)")])
    # assertion classes and methods with empty operands given in every raw form (all-string argument lists included)
    empties = ["''", 'Pregex()', "Either('', '')", "Concat('', '')", "Exactly('a', 0)", "Either()"]
    for m in ("'a'", "Pregex('a')", "'a|b'", "AnyDigit()"):
        for e in empties:
            for cls in ('FollowedBy', 'PrecededBy', 'EnclosedBy', 'NotFollowedBy', 'NotPrecededBy', 'NotEnclosedBy'):
                for src in (f"{cls}({m}, {e})", f"{cls}({m}, {e}, {e})", f"{cls}({m}, 'k', {e})" if cls.startswith('Not') else None,
                            f"Pregex({m}).{FOLD_METHOD[cls]}({e})" if m[0] in "'" else f"{m}.{FOLD_METHOD[cls]}({e})"):
                    if src is None:
                        continue
                    n += 1
                    want_exc = cls.startswith('Not')
                    try:
                        got = ('ok', str(dsl.build(src)))
                    except Exception as ex:  # noqa: BLE001
                        got = ('raise', type(ex).__name__)
                    ok = got == ('raise', 'EmptyNegativeAssertionException') if want_exc else got == ('ok', str(dsl.build(f"Pregex({m})" if m[0] == "'" else m)))
                    if not ok:
                        exp = "raises EmptyNegativeAssertionException" if want_exc else "returns the match pattern unchanged"
                        code = (f"try:\n    r = {src}\nexcept EmptyNegativeAssertionException:\n    pass\nelse:\n    raise AssertionError(str(r))" if want_exc else
                                f"assert str({src}) == str(Pregex({m}) if isinstance({m}, str) else {m})")
                        run.add([V(f'C05|empty-assertion|{src}', f"{src} -> {got!r}; documented: {exp}", code)])
    # "identity" means the operand itself keeps working as what it was: a class that went through a construction with an
    # empty operand still takes part in class algebra, a token still serves as a class argument, and the result combines like the operand
    ident = [("({x}) + {e}", "({x})"), ("{e} + ({x})", "({x})"), ("({x}).concat({e})", "({x})"), ("({x}).concat({e}, on_right=False)", "({x})"),
             ("Concat({x}, {e})", "Concat({x})"), ("Concat({e}, {x})", "Concat({x})"), ("Concat({e}, {x}, {e})", "Concat({x})"),
             ("({x}).enclose({e})", "({x})"), ("Enclose({x}, {e})", "Enclose({x})"), ("Either({x}, {e})", "Either({x})"), ("({x}).either({e})", "({x})"),
             ("({x}).followed_by({e})", "({x})"), ("({x}).preceded_by({e})", "({x})"), ("({x}).enclosed_by({e})", "({x})")]
    follow = {
        # (whether the result is still an instance of the class type - and so takes part in class algebra - is not something the
        # property states: `AnyDigit() + Pregex()` is a plain Pregex on the unchanged tree; only pattern-level continuations are judged)
        'class': ["Optional({r})", "({r}) + 'x'", "Either({r}, 'x') + 'y'", "({r}).exactly(2)", "PrecededBy('k', {r})", "Capture({r}, 'c')"],
        'token': ["AnyFrom({r}, 'a')", "AnyBetween({r}, '~')", "Optional({r})", "({r}) + 'x'", "({r}) * 2"],
        'other': ["Optional({r})", "({r}) + 'x'", "Either({r}, 'x') + 'y'", "Capture({r})", "({r}).exactly(2)", "PrecededBy('k', {r})"],
    }
    subjects = [('class', c) for c in ("AnyDigit()", "AnyLetter()", "AnyFrom('a', 'b')", "AnyButFrom('a')", "AnyBetween('a', 'f')", "AnyButWhitespace()", "AnyWordChar()", "Any()")]
    subjects += [('token', t) for t in ("Newline()", "Backslash()", "Space()", "Dollar()")]
    subjects += [('other', o) for o in ("Pregex('ab')", "Either('a', 'b')", "Optional('a')", "Capture('a', 'n')", "Group('a', True)", "MatchAtStart('a')", "'a' + AnyDigit()")]
    m = 0
    for kind, xs in subjects:
        for e in ("Pregex()", "''", "Exactly('a', 0)", "Concat()"):
            for f, fr in ident:
                for g in follow[kind]:
                    a_src, b_src = g.format(r=f.format(x=xs, e=e)), g.format(r=fr.format(x=xs))
                    m += 1
                    res = []
                    for src in (a_src, b_src):
                        try:
                            res.append(('ok', str(dsl.build(src))))
                        except Exception as ex:  # noqa: BLE001
                            res.append(('raise', type(ex).__name__))
                    a, b = res
                    ok = a == b or (a[0] == b[0] == 'ok' and (a[1] == '') == (b[1] == '') and rx.equiv(a[1], b[1])[0] in ('tree', 'texts'))
                    if not ok:
                        run.add([V(f'C05|identity-then|{a_src}', f"{a_src} -> {a!r} but without the empty operand {b_src} -> {b!r}",
                                   "from mc import rx\ndef out(f):\n    try:\n        return ('ok', str(f()))\n    except Exception as e:\n        return ('raise', type(e).__name__)\n"
                                   f"a = out(lambda: {a_src})\nb = out(lambda: {b_src})\n"
                                   "assert a == b or (a[0] == b[0] == 'ok' and rx.equiv(a[1], b[1])[0] in ('tree', 'texts')), (a, b)")])
    # enclosing the empty pattern: by the identity of concatenation, Enclose(<empty>, x) is x followed by x
    for e in ("Pregex()", "''", "Concat()", "Exactly('a', 0)"):
        for x_ in ("'x'", "Either('a', 'b')", "AnyDigit()", "Capture('a')", "'a|b'"):
            for a_src in (f"Enclose({e}, {x_})", f"({e} if not isinstance({e}, str) else Pregex({e})).enclose({x_})", f"Enclose({e}, {x_}, {x_})"):
                b_src = f"Concat({x_}, {x_})" if a_src.count(x_) == 1 else f"Concat({x_}, {x_}, {x_}, {x_})"
                m += 1
                res = []
                for src in (a_src, b_src):
                    try:
                        res.append(('ok', str(dsl.build(src))))
                    except Exception as ex:  # noqa: BLE001
                        res.append(('raise', type(ex).__name__))
                a, b = res
                if not (a == b or (a[0] == b[0] == 'ok' and rx.equiv(a[1], b[1])[0] in ('tree', 'texts'))):
                    run.add([V(f'C05|enclose-empty|{a_src}', f"{a_src} -> {a!r}, expected the equivalent of {b_src} -> {b!r}",
                               f"from mc import rx\na = str({a_src})\nb = str({b_src})\nassert rx.equiv(a, b)[0] in ('tree', 'texts'), (a, b)")])
    run.count('identity_then_cases', m)
    n += m
    run.count('nary_empty_cases', n)
    cov['transitions'] += n
    return cov, assumptions


def _task_literals(arg):
    """every literal string is repeatable (C09) and has one fixed width (C10)"""
    from ..common import V
    lits, pid = arg
    dsl.setup_worker()
    viol, n = [], 0
    P = dsl.NS['Pregex']
    if pid == 'C09':
        forms = ['Indefinite({0})', 'OneOrMore({0}, False)', 'Exactly({0}, 2)', 'AtLeast({0}, 2)', 'AtMost({0}, 3)', 'AtLeastAtMost({0}, 1, 2)',
                 'Pregex({0}).indefinite()', 'Pregex({0}).one_or_more()', 'Pregex({0}).exactly(3)', 'Pregex({0}) * 2', '2 * Pregex({0})',
                 'Pregex({0}).at_least(2)', 'Pregex({0}).at_most(2, False)', 'Pregex({0}).at_least_at_most(2, 3)',
                 '(Pregex({0}) + Pregex({0})).one_or_more()', "Either({0}, 'k').indefinite()", "Capture({0}).exactly(2)", "Optional({0}).one_or_more()"]
        exc = 'CannotBeRepeatedException'
    else:
        forms = ["PrecededBy('k', {0})", "NotPrecededBy('k', {0})", "EnclosedBy('k', {0})", "NotEnclosedBy('k', {0})",
                 "Pregex('k').preceded_by({0})", "Pregex('k').not_enclosed_by({0})", "PrecededBy('k', Exactly({0}, 2))",
                 "NotPrecededBy('k', Pregex({0}) + Pregex({0}))", "PrecededBy('k', Either({0}, {0}))", "PrecededBy('k', Capture({0}))"]
        exc = 'NonFixedWidthPatternException'
    for s in lits:
        for f in forms:
            src = f.format(repr(s))
            n += 1
            try:
                r = dsl.build(src)
                bad = None if rx.compiles(str(r))[0] else 'returned %r which re rejects' % str(r)
            except Exception as e:  # noqa: BLE001
                bad = 'raised ' + type(e).__name__
            if bad:
                viol.append(V(f'{pid}|literal|{src}', f"{src}: {bad} (a literal string is repeatable and has one fixed width)",
                              f"from mc import rx\nr = {src}\nassert rx.compiles(str(r))[0], str(r)"))
    return viol, n


def _literal_sweep(run, pid, cov):
    from .. import common
    lits = [s for s in al.all_literals() if s]
    n = 0
    for viol, k in common.pmap(_task_literals, [(c, pid) for c in common.chunks(lits, 60)]):
        run.add(viol)
        n += k
    run.count('literal_sweep_cases', n)
    cov['transitions'] += n
    cov['traces_validated_against_impl'] += n
    cov['rule'] += f' || every literal of the alphabet ({len(lits)} strings: all of length <= 2 over 45 symbols + curated) under the repeating quantifier / lookbehind forms'


def _task_assertions(lits):
    """direct assertion instances over every literal operand must be refused by repeating quantifiers, with CannotBeRepeatedException"""
    from ..common import V
    dsl.setup_worker()
    viol, n = [], 0
    kinds = ["MatchAtStart({0})", "MatchAtEnd({0})", "MatchAtLineStart({0})", "MatchAtLineEnd({0})", "FollowedBy({0}, 'k')",
             "PrecededBy({0}, 'k')", "EnclosedBy({0}, 'k')", "FollowedBy('k', {0})", "PrecededBy('k', {0})", "EnclosedBy('k', {0})"]
    quants = ["OneOrMore({0})", "({0}).exactly(2)", "({0}) * 3", "AtLeastAtMost({0}, 1, 2)", "Indefinite({0}, False)"]
    accept = ["Optional({0})", "({0}).exactly(1)", "({0}) * 0", "AtMost({0}, 1)"]
    for s in lits:
        for k in kinds:
            inner = k.format(repr(s))
            for q in quants:
                src = q.format(inner)
                n += 1
                try:
                    r = dsl.build(src)
                    bad = 'accepted: ' + str(r)
                except Exception as e:  # noqa: BLE001
                    bad = None if type(e).__name__ == 'CannotBeRepeatedException' else 'raised ' + type(e).__name__
                if bad:
                    viol.append(V(f'C09|assertion|{src}', f"{src}: {bad} (a direct assertion instance must be refused with CannotBeRepeatedException)",
                                  f"try:\n    r = {src}\nexcept CannotBeRepeatedException:\n    pass\nelse:\n    raise AssertionError('accepted: ' + str(r))"))
            for q in accept[: 2 if len(s) > 1 else 4]:
                src = q.format(inner)
                n += 1
                try:
                    dsl.build(src)
                except Exception as e:  # noqa: BLE001
                    viol.append(V(f'C09|assertion|{src}', f"{src}: raised {type(e).__name__} (a quantifier that cannot repeat is accepted for every operand)",
                                  f"r = {src}"))
    return viol, n


def _task_structured_assertions(arg):
    """direct assertion instances whose match / assertion operands are structured patterns (nullable, quantified, grouped, classes,
    alternations): still refused by every repeating quantifier, still accepted by the non-repeating ones"""
    from ..common import V
    dsl.setup_worker()
    viol, n = [], 0
    quants = ["OneOrMore({0})", "({0}).exactly(2)", "({0}) * 3", "AtLeastAtMost({0}, 1, 2)", "Indefinite({0}, False)", "AtLeast({0}, 0)", "({0}).at_most(None)",
              "3 * ({0})", "Exactly({0}, 13)", "AtMost({0}, 2 ** 32)", "AtLeast({0}, 2 ** 33)", "({0}).at_least_at_most(0, 65536)"]
    accept = ["Optional({0})", "({0}).exactly(1)", "AtMost({0}, 1)", "({0}) * 0", "1 * ({0})", "({0}) * 1", "0 * ({0})", "AtLeastAtMost({0}, 0, 1, False)", "AtLeastAtMost({0}, 1, 1)"]
    for inner in arg:
        try:
            dsl.build(inner)
        except Exception:  # noqa: BLE001
            continue       # e.g. a variable-width lookbehind: not an assertion instance at all (C10's question)
        for q in quants:
            src = q.format(inner)
            n += 1
            try:
                r = dsl.build(src)
                bad = 'accepted: ' + str(r)
            except Exception as e:  # noqa: BLE001
                bad = None if type(e).__name__ == 'CannotBeRepeatedException' else 'raised ' + type(e).__name__
            if bad:
                viol.append(V(f'C09|assertion|{src}', f"{src}: {bad} (a direct assertion instance must be refused with CannotBeRepeatedException)",
                              f"try:\n    r = {src}\nexcept CannotBeRepeatedException:\n    pass\nelse:\n    raise AssertionError('accepted: ' + str(r))"))
        for q in accept:
            src = q.format(inner)
            n += 1
            try:
                dsl.build(src)
            except Exception as e:  # noqa: BLE001
                viol.append(V(f'C09|assertion|{src}', f"{src}: raised {type(e).__name__} (a quantifier that cannot repeat is accepted for every operand)", f"r = {src}"))
    return viol, n


STRUCT_OPERANDS = ["'k'", "Optional('b')", "Indefinite(AnyDigit())", "AtMost('b', 2)", "AtLeastAtMost('b', 0, 2)", "Group(Optional('b'))", "Optional('b') + Optional('c')",
                   "AnyDigit()", "Either('b', 'cd')", "Capture('b')", "Capture(Optional('b'), 'g')", "Exactly(AnyDigit(), 4)", "Pregex('{2}')", "OneOrMore('b')",
                   "Newline()", "AnyFrom('\\n', 'x')", "'b\\nc'", "NotFollowedBy('b', 'c')", "WordBoundary()", "Group('b', True)", "Either(Optional('b'), 'c')",
                   "Backreference(1)", "Indefinite(Either('b', 'c'), False)", "AnyButFrom('\\n')", "Exactly('b', 2) + Optional('c')",
                   "FollowedBy('b', 'c')", "PrecededBy('b', 'c')", "MatchAtLineEnd('b')", "NotPrecededBy('b', 'c')", "FollowedBy('b', FollowedBy('c', 'd'))", "IPv4()", "Word()"]


def run_C09(run):
    from .. import common
    import itertools
    cov, assumptions = _run(run, [monitors.C09()])
    _literal_sweep(run, 'C09', cov)
    inners = []
    for m_, a_ in itertools.product(STRUCT_OPERANDS, repeat=2):
        for t in ("FollowedBy({m}, {a})", "PrecededBy({m}, {a})", "EnclosedBy({m}, {a})", "({m}).followed_by({a})" if m_[0] != "'" else "Pregex({m}).followed_by({a})",
                  "FollowedBy({m}, 'x', {a})", "FollowedBy({m}, {a}, {a})"):
            inners.append(t.format(m=m_, a=a_))
    for m_ in STRUCT_OPERANDS:
        for t in ("MatchAtStart({m})", "MatchAtEnd({m})", "MatchAtLineStart({m})", "MatchAtLineEnd({m})"):
            inners.append(t.format(m=m_))
    ns = 0
    for viol, k in common.pmap(_task_structured_assertions, common.chunks(inners, 100)):
        run.add(viol)
        ns += k
    run.count('structured_assertion_cases', ns)
    cov['transitions'] += ns
    cov['traces_validated_against_impl'] += ns
    cov['rule'] += f' || {len(inners)} direct assertion instances over {len(STRUCT_OPERANDS)} structured match/assertion operands (nullable, quantified, grouped, multi-line) x 7 repeating and 4 non-repeating quantifier forms'
    lits = [s for s in al.all_literals() if s]
    if run.tier == 'quick':
        lits = [s for s in lits if len(s) == 1 or s in al.CURATED] + [s for i, s in enumerate(lits) if len(s) == 2 and i % 4 == 0]
    n = 0
    for viol, k in common.pmap(_task_assertions, common.chunks(lits, 40)):
        run.add(viol)
        n += k
    run.count('assertion_sweep_cases', n)
    cov['transitions'] += n
    cov['traces_validated_against_impl'] += n
    cov['rule'] += f' || direct assertion instances (10 forms) over {len(lits)} literal operands x 5 repeating and 2-4 non-repeating quantifier forms'
    return cov, assumptions


def _task_varwidth(lits):
    """a variable-width assertion built from any literal must be refused with NonFixedWidthPatternException"""
    from ..common import V
    dsl.setup_worker()
    viol, n = [], 0
    forms = ["PrecededBy('k', Optional({0}))", "NotPrecededBy('k', OneOrMore({0}))", "EnclosedBy('k', Indefinite({0}))",
             "NotEnclosedBy('k', AtLeastAtMost({0}, 1, 2))", "Pregex('k').preceded_by(Pregex({0}) + Optional('z'))",
             "Pregex('k').not_preceded_by(Either({0}, Pregex({0}) + 'zz'))", "PrecededBy('k', 'z', Optional({0}))",
             "NotPrecededBy('k', AtMost({0}, 2), 'z')", "PrecededBy('k', Capture(Optional({0})))", "NotEnclosedBy('k', Group(AtLeast({0}, 2)))"]
    for s in lits:
        for f in forms:
            src = f.format(repr(s))
            n += 1
            try:
                r = dsl.build(src)
                bad = 'accepted: ' + str(r)
            except Exception as e:  # noqa: BLE001
                bad = None if type(e).__name__ == 'NonFixedWidthPatternException' else 'raised ' + type(e).__name__
            if bad:
                viol.append(V(f'C10|varwidth|{src}', f"{src}: {bad} (the assertion pattern has no single fixed width)",
                              f"try:\n    r = {src}\nexcept NonFixedWidthPatternException:\n    pass\nelse:\n    raise AssertionError('accepted: ' + str(r))"))
    return viol, n


LOOKALIKES = [("'a+'", "OneOrMore('a')"), ("'a*'", "Indefinite('a')"), ("'a?'", "Optional('a')"), ("'a{1,2}'", "AtLeastAtMost('a', 1, 2)"),
              ("'a|bc'", "Either('a', 'bc')"), ("'(?:a)?'", "Optional(Group('a'))"), ("'a+?'", "OneOrMore('a', False)"), ("'[ab]*'", "Indefinite(AnyFrom('a', 'b'))"),
              ("'a{2,}'", "AtLeast('a', 2)"), ("'\\\\d+'", "OneOrMore(AnyDigit())")]


def run_C10(run):
    from .. import common
    from ..common import V
    cov, assumptions = _run(run, [monitors.C10()])
    _literal_sweep(run, 'C10', cov)
    lits = [s for s in al.all_literals() if s]
    if run.tier == 'quick':
        lits = [s for s in lits if len(s) == 1 or s in al.CURATED] + [s for i, s in enumerate(lits) if len(s) == 2 and i % 4 == 0]
    n = 0
    for viol, k in common.pmap(_task_varwidth, common.chunks(lits, 40)):
        run.add(viol)
        n += k
    # a literal spelled like a variable-width pattern next to that pattern, in every position of the n-ary classes
    for lit, var in LOOKALIKES:
        for cls in ('PrecededBy', 'NotPrecededBy', 'EnclosedBy', 'NotEnclosedBy'):
            for args in ((lit, var), (var, lit), (lit, lit, var), (var, var), (lit, "'z'", var)):
                src = f"{cls}('k', {', '.join(args)})"
                n += 1
                try:
                    r = dsl.build(src)
                    bad = 'accepted: ' + str(r)
                except Exception as e:  # noqa: BLE001
                    bad = None if type(e).__name__ == 'NonFixedWidthPatternException' else 'raised ' + type(e).__name__
                if bad:
                    run.add([V(f'C10|lookalike|{src}', f"{src}: {bad} (one of the assertion patterns has no single fixed width)",
                               f"try:\n    r = {src}\nexcept NonFixedWidthPatternException:\n    pass\nelse:\n    raise AssertionError('accepted: ' + str(r))")])
            src = f"{cls}('k', {lit}, {lit})"
            n += 1
            try:
                r = dsl.build(src)
                if not rx.compiles(str(r))[0]:
                    run.add([V(f'C10|lookalike|{src}', f"{src} -> {str(r)!r} which re rejects", f"from mc import rx\nassert rx.compiles(str({src}))[0]")])
            except Exception as e:  # noqa: BLE001
                run.add([V(f'C10|lookalike|{src}', f"{src}: raised {type(e).__name__} for fixed-width literal assertions", f"r = {src}")])
    # structured fixed-width assertion patterns in all six lookaround forms: accepted, and equivalent to the reference
    structured = ["Group(Pregex('a') + Either('b', 'c'))", "Group(Either('a', 'b') + 'c')", "Group(Group('a'))", "Capture(Group('ab'))",
                  "Either(Group('ab'), Group('cd'))", "Group(Either('a', 'b'))", "Group(Group(Either('a', 'b')) + Group('c'))", "Capture(Capture('a') + Capture('b'))",
                  "Group(Capture('a'), True)", "Group('a' + Group(Either('b', 'c'), True))", "Exactly(Group(Either('ab', 'cd')), 2)", "Group(AnyFrom('(', ')'))",
                  "Group(Pregex('(') + ')')", "Group(Pregex(')'))", "Pregex(')') + Group('a')", "Group('a') + Pregex('(?:')", "Group(Pregex(':') + '?')",
                  "Group(Exactly('a', 2) + Exactly(Either('b', 'c'), 3))", "Either(Either('a', 'b'), Either('c', 'd'))", "Group(Group(Group('a')))",
                  "Group(FollowedBy('a', 'b'))", "Group(NotPrecededBy('a', Group('b')))", "Group(Backslash() + ')')", "Group(Pregex('a)') )"]
    look = {'FollowedBy': '{x}(?={y})', 'NotFollowedBy': '{x}(?!{y})', 'PrecededBy': '(?<={y}){x}', 'NotPrecededBy': '(?<!{y}){x}',
            'EnclosedBy': '(?<={y}){x}(?={y})', 'NotEnclosedBy': '(?<!{y}){x}(?!{y})'}
    for y in structured:
        try:
            ytext = str(dsl.build(y))
        except Exception as e:  # noqa: BLE001
            run.add([V(f'C10|structured|{y}', f"{y} raised {type(e).__name__}", 'r = ' + y)])
            continue
        for cls, fmt in look.items():
            for src in (f"{cls}('k', {y})", f"Pregex('k').{FOLD_METHOD[cls]}({y})"):
                n += 1
                ref = fmt.format(x='(?:k)', y=ytext)
                try:
                    r = dsl.build(src)
                    v = rx.equiv(str(r), ref)
                    bad = None if v[0] in ('tree', 'texts', 'error_b') else f'-> {str(r)!r}, not equivalent to {ref!r}: {v[1]}'
                except Exception as e:  # noqa: BLE001
                    bad = 'raised ' + type(e).__name__
                if bad:
                    run.add([V(f'C10|structured|{src}', f"{src}: {bad} (the assertion pattern {ytext!r} has one fixed width)",
                               f"from mc import rx\nr = {src}\nv = rx.equiv(str(r), {ref!r})\nassert v[0] in ('tree', 'texts'), (str(r), v)")])
    # assertion patterns that refer to groups defined outside them, over the alphabet of reference forms (numbers 1, 2, 9, 10, 50, 98, 99;
    # ASCII, underscore, digit-bearing, non-ASCII and long names): fixed-width companions are accepted, variable-width ones refused
    refs = ["Backreference(%d)" % k for k in (1, 2, 9, 10, 50, 98, 99)] + ["Backreference(%r)" % s for s in ('n', '_', 'x1', 'Ab_9', 'x' * 30)]
    conds = ['n', '_', 'x1', 'd\u00eda', 'x\u540d', 'caf\u00e9', 'x' * 30]
    fixed_c, var_c = ["", " + 'a'", " + AnyDigit()", " + Exactly('a', 2)", " + Either('a', 'b')"], [" + Optional('a')", " + OneOrMore(AnyDigit())", " + Either('a', 'bc')", " + AtMost('a', 2)"]
    cases = [(r + c, True) for r in refs for c in fixed_c] + [(r + c, False) for r in refs for c in var_c]
    # several references at once (one- and two-digit numbers in either order, numbers next to names), up to 100 distinct outside groups
    multi = ["Backreference(2) + Backreference(10)", "Backreference(10) + Backreference(2)", "Backreference(9) + Backreference(10)", "Backreference(3) + Backreference(12) + Backreference(1)",
             "Backreference(99) + Backreference('first')", "Backreference('a') + Backreference('b') + Backreference(98)", "Backreference(20) + Backreference(100 - 1) + Backreference('z9')",
             "Concat(*[Backreference(k) for k in range(1, 100)])", "Concat(*[Backreference(k) for k in range(99, 0, -7)]) + Backreference('n')"]
    cases += [(m_, True) for m_ in multi] + [(m_ + " + 'a'", True) for m_ in multi] + [(m_ + c, False) for m_ in multi for c in var_c[:2]]
    # assertion patterns that are themselves wrapped in lookarounds on both sides around a fixed / variable body
    for body, fx in (("'b'", True), ("Exactly('b', 3)", True), ("Optional('b')", False), ("OneOrMore(AnyDigit())", False), ("Either('b', 'cc')", False)):
        cases += [(f"EnclosedBy({body}, 'a')", fx), (f"FollowedBy(PrecededBy({body}, 'a'), 'c')", fx), (f"NotEnclosedBy({body}, 'a')", fx), (f"PrecededBy(NotFollowedBy({body}, 'c'), 'a')", fx),
                  (f"MatchAtLineStart({body}) + FollowedBy(Pregex(), 'a')" if False else f"NotPrecededBy(FollowedBy({body}, 'c'), 'a')", fx)]
    cases += [("'a' + " + r, True) for r in refs] + [("Optional('a') + " + r, False) for r in refs]
    for nm in conds:
        cases += [(f"Conditional({nm!r}, 'a', 'c')", True), (f"Conditional({nm!r}, AnyDigit(), AnyLetter())", True), (f"Conditional({nm!r}, 'ab', 'cd') + 'e'", True),
                  (f"Conditional({nm!r}, 'ab', 'c')", False), (f"Conditional({nm!r}, 'ab')", False), (f"Conditional({nm!r}, Optional('a'), 'c')", False),
                  (f"Conditional({nm!r}, 'a', 'c') + OneOrMore('d')", False)]
    # classes whose text ends in a backslash (or holds brackets) next to a quantifier and another class
    for c_ in ("AnyButFrom('\\\\')", "AnyFrom('a', '\\\\')", "AnyFrom('\\\\', ']')", "AnyFrom('[', ']')", "AnyButFrom(']')", "AnyFrom('\\\\')"):
        cases += [(f"Optional({c_}) + AnyFrom('x', 'y')", False), (f"{c_} + OneOrMore(AnyFrom('x', 'y'))", False), (f"AnyFrom('x', 'y') + AtMost({c_}, 2) + AnyDigit()", False),
                  (f"{c_} + AnyFrom('x', 'y')", True), (f"Exactly({c_}, 2) + AnyFrom('?', '*') + {c_}", True), (f"Either({c_}, AnyFrom('+', '{{')) + {c_}", True)]
    for y, is_fixed in cases:
        for src in (f"PrecededBy('k', {y})", f"NotPrecededBy('k', {y})", f"EnclosedBy('k', {y})", f"Pregex('k').not_enclosed_by({y})", f"PrecededBy('k', 'z', {y})"):
            n += 1
            try:
                r = dsl.build(src)
                got = 'accepted'
            except Exception as e:  # noqa: BLE001
                got = type(e).__name__
            want = 'accepted' if is_fixed else 'NonFixedWidthPatternException'
            if got != want:
                run.add([V(f'C10|reference|{src}', f"{src}: {got}, expected {want} (widths are relative to fixed-width referenced groups)",
                           (f"r = {src}" if is_fixed else f"try:\n    r = {src}\nexcept NonFixedWidthPatternException:\n    pass\nelse:\n    raise AssertionError('accepted: ' + str(r))"))])
    run.count('variable_width_sweep_cases', n)
    cov['transitions'] += n
    cov['traces_validated_against_impl'] += n
    cov['rule'] += f' || variable-width assertions built from {len(lits)} literals (10 forms) and literal/pattern look-alikes in the n-ary classes must be refused'
    return cov, assumptions


def run_C20(run):
    return _run(run, [monitors.C20()])


def run_C08(run):
    """the graph restricted to grouping operations, to depth 4 (5)"""
    L = explore.Level
    gq = dsl.group_ops() + [dsl.Op('capture', ('y',), 1, [('method', "({0}).capture('y')"), ('class', "Capture({0}, 'y')")], None, 'group')]
    opt = [o for o in dsl.quantifier_ops() if o.name == 'optional' and o.params == (True,)]
    cat = [o for o in dsl.binary_ops() if o.name in ('concat', 'either', 'enclose')]
    partners = [("Pregex('b')", 'b'), ("Capture('c')", None), ("Capture('c', 'z')", None), ("Capture('a')", None)]
    atoms = al.atom_list(['a', '(', ')', '?:', '?P<', '(?P<x>', '(?i:', '(a)', '(?:a)', 'A', '\\\\', 'a\\\\', '\\\\\\', ':a', '::'],
                         ["AnyLetter()", "AnyFrom(')', '\\n')", "AnyFrom('(', '\\n')", "AnyButFrom(')')", "AnyFrom('(', 'a')", "OneOrMore(AnyButFrom(')'))", "AnyFrom('?', ':')", "Either('a', 'B')", "FollowedBy(Pregex(), 'b')", "NotPrecededBy(Pregex(), 'b')",
                          "FollowedBy('a', 'b')", "Conditional('n', 'a')", "Conditional('n', 'a', 'B')", 'Backreference(1)',
                          "Backreference('n')", "Capture('a')", "Capture('a', 'x')", "Group('a', True)", "Group('aB')", 'Pregex()'])
    depth = 4 if run.tier == 'quick' else 5
    levels = [L(gq + opt, cat[:1] if i else cat, partners if i == 0 else partners[:3], (0, 1), f'depth {i + 1}: capture()/capture(x)/capture(y)/group()/group(True)/optional, concat with b, (c), (?P<z>c)')
              for i in range(depth)]
    res = explore.run(dsl.safe_atoms(atoms, run), levels, [monitors.C08()], nested_tail=(run.tier != 'quick'))
    run.add(res['violations'])
    run.merge_counts(res['counts'])
    # the alphabet of group names: every shape Python accepts as an identifier (non-ASCII letters, digits, underscores, long)
    names = ['x\u00e9', 'caf\u00e9', 'x1', '_', '_1', 'x\u0394', 'x\u540d', 'x' * 33, 'P', 'i', 'x\u0661']
    nops = [dsl.Op('capture', (nm,), 1, [('method', "({0}).capture(%r)" % nm), ('class', "Capture({0}, %r)" % nm)], None, 'group') for nm in names]
    natoms = [("Pregex('a')", 'a'), ("Capture('a')", None), ("Capture('a', 'q')", None), ("Capture('a', 'x\u00e9')", None),
              ("Capture(Capture('b', 'w'), 'x\u00f1')", None), ("Capture('a', 'w') + Capture('b', 'x\u00f1')", None),
              ("Capture(Capture('b', 'x\u00f1'), 'w')", None), ("Group(Capture('b', 'x\u00f1'), True)", None)]
    nlevels = [L(nops + dsl.group_ops(), cat[:1], partners[:2], (0, 1), f'names depth {i + 1}: capture(name) for {len(names)} name shapes, capture(), group(), group(True)')
               for i in range(2 if run.tier == 'quick' else 3)]
    res2 = explore.run(dsl.safe_atoms(natoms, run), nlevels, [monitors.C08()], nested_tail=False)
    run.add(res2['violations'])
    run.merge_counts(res2['counts'])
    res['hashes'] |= res2['hashes']
    cov = {
        'states': len(res['hashes']) + res['counts'].get('tail_states_local', 0),
        'transitions': res['counts'].get('transitions', 0) + res2['counts'].get('transitions', 0),
        'traces_validated_against_impl': res['counts'].get('executions', 0) + res2['counts'].get('executions', 0),
        'evaluations': res['counts'].get('executions', 0) + res2['counts'].get('executions', 0),
        'distinct_nontrivial': len(res['hashes']),
        'states_per_level': [res['states_per_level'], res2['states_per_level']],
        'samples': res['samples'],
        'rule': 'explicit-state BFS over the DSL value graph restricted to grouping operations (plus a second graph over the alphabet of group-name shapes); the result tree of every '
                'capture()/group() transition is predicted from the operand tree by the documented rules and compared '
                '(tree equality, else all texts over a derived alphabet incl. group spans)',
        'exhaustive': True,
        'bounds': {'depth': depth, 'atoms': len(atoms), 'ops_per_state': len(gq) + 1 + 2 * len(partners)},
    }
    return cov, ['CPython re._parser is the trusted reader of group structure',
                 'expressions that define the same group name twice are out of scope']
