"""Properties decided on the DSL value graph: C02 C03 C05 C09 C10 C20 (+ parts of C01 C04 C08)."""
from .. import alphabet as al, dsl, explore, monitors, rx


def phases_for(tier):
    """-> list of (atoms, levels, nested_tail)"""
    q, gq, an, bi = dsl.quantifier_ops(), dsl.group_ops(), dsl.anchor_ops(), dsl.binary_ops()
    cq = dsl.core_quantifier_ops()
    core, small, tiny = al.core_atoms(), al.small_atoms(), al.tiny_atoms()
    L = explore.Level
    if tier == 'quick':
        return [
            (core, [L(q + gq + an, bi, core, (0, 1), 'wide depth 1: all ops, core x core atoms')], False),
            (small, [L(q + gq + an, bi, small, (0, 1), 'deep depth 1: all ops, small x small atoms'),
                     L(cq + gq + an, bi, tiny, (0, 1), 'deep depth 2: core quantifiers, groups, anchors; '
                       'binary ops with the tiny atoms on both sides')], False),
        ]
    return [
        (core, [L(q + gq + an, bi, core, (0, 1), 'wide depth 1: all ops, core x core atoms'),
                L(q + gq + an, bi, small, (0, 1), 'wide depth 2: all ops; binary ops with the small atoms on both sides')], False),
        (small, [L(q + gq + an, bi, small, (0, 1), 'deep depth 1: all ops, small x small atoms'),
                 L(cq + gq + an, bi, tiny, (0, 1), 'deep depth 2: core quantifiers, groups, anchors; binary ops with tiny atoms'),
                 L(cq[:6] + gq[:1] + an[:1] + an[3:], bi[:2] + bi[3:4] + bi[5:6], tiny[:5], (0, 1),
                   'deep depth 3 (nested in the workers): 6 quantifiers, capture, 2 anchors; '
                   'concat/either/followed_by/preceded_by with 5 atoms')], True),
    ]


def _run(run, mons):
    phases = phases_for(run.tier)
    hashes, viol, counts, samples, outcomes, names, bounds, per = set(), [], {}, [], set(), [], [], []
    for atoms, levels, nested in phases:
        res = explore.run([dsl.atom(e, l) for e, l in atoms], levels, mons, nested_tail=nested)
        hashes |= res['hashes']
        viol.extend(res['violations'])
        for k, v in res['counts'].items():
            counts[k] = counts.get(k, 0) + v
        samples.extend(res['samples'][:6])
        outcomes |= set(res['outcomes'])
        names.extend(l.name for l in levels)
        per.append(res['states_per_level'])
        bounds.append({'atoms': len(atoms), 'levels': [
            {'unary_ops': len(l.unary), 'binary_ops': len(l.binary), 'partners': len(l.partners)} for l in levels]})
    run.add(viol)
    run.merge_counts(counts)
    cov = {
        'states': len(hashes) + counts.get('tail_states_local', 0),
        'states_exact_distinct_below_tail_level': len(hashes),
        'transitions': counts.get('transitions', 0),
        'traces_validated_against_impl': counts.get('executions', 0),
        'evaluations': counts.get('executions', 0),
        'distinct_nontrivial': len(hashes),
        'states_per_level': per,
        'distinct_outcomes': sorted(outcomes),
        'samples': samples,
        'rule': 'explicit-state BFS over the DSL value graph, de-duplicated on (kind, emitted text, class attributes); '
                'every transition executes the real operation in all its spellings on real objects and is judged '
                'against the reference composition of its operands; levels: ' + ' / '.join(names),
        'exhaustive': True,
        'bounds': bounds,
    }
    if len(outcomes) < 2:
        raise Exception('vacuous exploration: a single outcome kind')
    assumptions = ['CPython re and re._parser are the trusted reader/executor of regex syntax',
                   'equal parse-tree normal forms compile to identical programs; otherwise all texts over a '
                   'derived alphabet up to the stated length are compared',
                   'states with equal canonical key have equal futures (DESIGN.md 1.2)']
    return cov, assumptions


def run_C02(run):
    return _run(run, [monitors.C02(1500 if run.tier == 'quick' else 6000)])


def run_C03(run):
    return _run(run, [monitors.C03()])


def run_C05(run):
    return _run(run, [monitors.C05()])


def run_C09(run):
    return _run(run, [monitors.C09()])


def run_C10(run):
    return _run(run, [monitors.C10()])


def run_C20(run):
    return _run(run, [monitors.C20()])
