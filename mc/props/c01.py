"""C01 - plain strings are matched literally wherever they are accepted.

(a) Pregex(c) for every Unicode code point c (quick: c < 0x3000 + plane boundaries; thorough: all)
(b) Pregex(s) for every s of the literal alphabet (all strings over Sigma_meta of length <= 2 plus
    the curated syntax-mimicking strings; thorough adds all triples over the escape set)
(c) every argument position that accepts str, with every such s, other operands neutral ('k')
(d) (b) repeated in fresh interpreters under other PYTHONHASHSEEDs (the escape loop iterates a set)
Oracle: the contribution of s must have normal form Seq[Lit(c) for c in s] -- decided by parse-tree
equality, hence for all texts -- and the position result must equal the reference composition
built from my own rendering of s.
"""
import itertools
import json
import re

from .. import alphabet as al, common, dsl, rx
from ..common import V
from ..env import NS

NEUTRAL = 'k'


def lit_tree(s):
    if len(s) == 1:
        return ('lit', ord(s))
    return ('seq',) + tuple(('lit', ord(c)) for c in s)


def _neighbours(s):
    out = set()
    for i in range(len(s)):
        out.add(s[:i] + s[i + 1:])
        for r in ('a', '\\', '.', s[i].swapcase()):
            out.add(s[:i] + r + s[i + 1:])
    for i in range(len(s) + 1):
        for r in ('a', '\\', '\n'):
            out.add(s[:i] + r + s[i:])
    out.discard(s)
    return out


# -- (a) -----------------------------------------------------------------------------
def _task_codepoints(rng):
    lo, hi = rng
    P = NS['Pregex']
    viol, n = [], 0
    for cp in range(lo, hi):
        c = chr(cp)
        n += 1
        try:
            p = P(c)
            text = str(p)
            tree = rx._parse_raw(text, False).tree
            ok = tree == ('lit', cp) and p.is_exact_match(c)
        except Exception as e:  # noqa: BLE001
            ok, text = False, repr(e)
        if not ok:
            viol.append(V('C01|codepoint|U+%04X' % cp,
                          f"Pregex(chr(0x{cp:x})) -> {text!r} does not denote exactly that character",
                          f"from mc import rx\np = Pregex(chr({cp}))\n"
                          f"assert rx.parse(str(p)).tree == ('lit', {cp}), str(p)\nassert p.is_exact_match(chr({cp}))"))
    return viol, n


# -- (b) -----------------------------------------------------------------------------
def check_literal(s):
    P = NS['Pregex']
    try:
        p = P(s)
        text = str(p)
    except Exception as e:  # noqa: BLE001
        return V('C01|literal|%r|raised:%s' % (s, type(e).__name__), f"Pregex({s!r}) raised {type(e).__name__}",
                 f"Pregex({s!r})"), None
    try:
        tree = rx._parse_raw(text, False).tree
    except re.error as e:
        tree = ('error', str(e))
    bad = None
    if tree != lit_tree(s):
        bad = f'normal form {tree!r}'
    elif not p.is_exact_match(s):
        bad = 'does not exact-match itself'
    elif not _compiled_ok(p, s):
        bad = 'after compile() it no longer exact-matches itself (or matches a neighbour)'
    else:
        for t in _neighbours(s):
            if p.is_exact_match(t):
                bad = f'exact-matches {t!r}'
                break
    if bad:
        return V('C01|literal|%r' % s, f"Pregex({s!r}) -> {text!r}: {bad}",
                 f"from mc.props.c01 import lit_tree\nfrom mc import rx\np = Pregex({s!r})\n"
                 f"assert rx.parse(str(p)).tree == lit_tree({s!r}), str(p)\nassert p.is_exact_match({s!r})\np.compile()\nassert p.is_exact_match({s!r}) and p.get_matches({s!r}) == [{s!r}]"), text
    return None, text


def _compiled_ok(p, s):
    """the compiled form (built from the exported text) matches the same literal"""
    try:
        q = NS['Pregex'](s)
        q.compile()
        if not q.is_exact_match(s) or q.get_matches(s) != [s]:
            return False
        for t in list(_neighbours(s))[:6]:
            if q.is_exact_match(t):
                return False
        e = q.get_pattern()
        return e.isprintable() and rx.equiv(e, str(q))[0] in ('tree', 'texts')
    except Exception:  # noqa: BLE001
        return False


def _task_literals(chunk):
    viol, texts = [], []
    for s in chunk:
        v, text = check_literal(s)
        if v:
            viol.append(v)
        texts.append(text)
    return viol, texts


# -- (c) -----------------------------------------------------------------------------
def positions():
    """-> list of (label, python expression with {s} for the str argument, reference builder f(L)
    where L is my rendering of the literal)."""
    g = dsl.g
    K = g(NEUTRAL)
    pos = []
    for op in dsl.binary_ops():
        cls = op.spellings[1][1]
        meth = op.spellings[0][1]
        # class form, str in first / second position
        pos.append((op.name + ':class-arg0', cls.format('{s}', repr(NEUTRAL)), lambda L, r=op.ref: r(L, NEUTRAL)))
        pos.append((op.name + ':class-arg1', cls.format(repr(NEUTRAL), '{s}'), lambda L, r=op.ref: r(NEUTRAL, L)))
        pos.append((op.name + ':class-both', cls.format('{s}', '{s}'), lambda L, r=op.ref: r(L, L)))
        pos.append((op.name + ':method-arg', meth.format('Pregex(%r)' % NEUTRAL, '{s}'), lambda L, r=op.ref: r(NEUTRAL, L)))
        pos.append((op.name + ':method-self-is-literal', meth.format('Pregex({s})', repr(NEUTRAL)),
                    lambda L, r=op.ref: r(L, NEUTRAL)))
    bo = {o.name: o for o in dsl.binary_ops()}
    pos.append(('add:right', "Pregex(%r) + {s}" % NEUTRAL, lambda L: K + g(L)))
    pos.append(('add:left', "{s} + Pregex(%r)" % NEUTRAL, lambda L: g(L) + K))
    pos.append(('add:class-right', "AnyDigit() + {s}", lambda L: r'[0-9]' + g(L)))
    pos.append(('add:class-left', "{s} + AnyDigit()", lambda L: g(L) + r'[0-9]'))
    pos.append(('concat:left-flag', "Pregex(%r).concat({s}, on_right=False)" % NEUTRAL, lambda L: g(L) + K))
    pos.append(('either:left-flag', "Pregex(%r).either({s}, on_right=False)" % NEUTRAL, lambda L: g(L) + '|' + K))
    for name in ('Concat', 'Either'):
        r = bo[name.lower()].ref
        pos.append((name + ':arity1', name + '({s})', lambda L: g(L)))
        pos.append((name + ':arity3-mid', name + '(%r, {s}, %r)' % (NEUTRAL, NEUTRAL), lambda L, r=r: r(r(NEUTRAL, L), NEUTRAL)))
        pos.append((name + ':arity3-last', name + '(%r, %r, {s})' % (NEUTRAL, NEUTRAL), lambda L, r=r: r(r(NEUTRAL, NEUTRAL), L)))
    r = bo['enclose'].ref
    pos.append(('Enclose:arity1', 'Enclose({s})', lambda L: g(L)))
    pos.append(('Enclose:arity3', 'Enclose(%r, {s}, %r)' % (NEUTRAL, NEUTRAL), lambda L, r=r: r(r(NEUTRAL, L), NEUTRAL)))
    for nm in ('FollowedBy', 'NotFollowedBy', 'PrecededBy', 'NotPrecededBy', 'EnclosedBy', 'NotEnclosedBy'):
        import re as _re
        meth = _re.sub(r'(?<!^)(?=[A-Z])', '_', nm).lower()
        r = bo[meth].ref
        pos.append((nm + ':arity3', nm + '(%r, {s}, %r)' % (NEUTRAL, NEUTRAL), lambda L, r=r: r(r(NEUTRAL, L), NEUTRAL)))
    for op in dsl.quantifier_ops():
        if op.params and op.params[-1] is False and op.name not in ('exactly',):
            continue   # lazy twins add nothing about the literal
        pos.append((op.label() + ':class', op.spellings[1][1].format('{s}'), op.ref))
    pos.append(('mul:literal-self', 'Pregex({s}) * 2', lambda L: g(L) + '{2}'))
    for op in dsl.anchor_ops():
        pos.append((op.name + ':class', op.spellings[1][1].format('{s}'), op.ref))
    pos.append(('Capture', 'Capture({s})', lambda L: '(' + L + ')'))
    pos.append(('Capture:named', "Capture({s}, 'x')", lambda L: '(?P<x>' + L + ')'))
    pos.append(('Group', 'Group({s})', lambda L: g(L)))
    pos.append(('Group:i', 'Group({s}, True)', lambda L: '(?i:' + L + ')'))
    # nested class forms (a result of one class handed to another)
    pos.append(('nested:Concat-Concat', "Concat(Concat({s}, %r), %r)" % (NEUTRAL, NEUTRAL), lambda L: g(L) + K + K))
    pos.append(('nested:Concat-Concat1', "Concat(Concat({s}), %r)" % NEUTRAL, lambda L: g(L) + K))
    pos.append(('nested:Either-Concat', "Either(Concat({s}, %r), %r)" % (NEUTRAL, NEUTRAL), lambda L: g(g(L) + K) + '|' + K))
    pos.append(('nested:Concat-Either', "Concat(Either({s}, %r), %r)" % (NEUTRAL, NEUTRAL), lambda L: g(g(L) + '|' + K) + K))
    pos.append(('nested:Enclose-Concat', "Enclose(Concat({s}, %r), %r)" % (NEUTRAL, NEUTRAL), lambda L: K + g(L) + K + K))
    pos.append(('nested:Concat3', "Concat(Concat(Concat({s})))", lambda L: g(L)))
    pos.append(('nested:Optional-Concat', "Optional(Concat({s}, %r))" % NEUTRAL, lambda L: g(g(L) + K) + '?'))
    pos.append(('nested:FollowedBy-Either', "FollowedBy(Either(%r, {s}), Concat({s}))" % NEUTRAL, lambda L: g(K + '|' + g(L)) + '(?=' + L + ')'))
    pos.append(('nested:Capture-Group', "Capture(Group({s}))", lambda L: '(' + L + ')'))
    pos.append(('nested:Group-Capture', "Group(Capture({s}))", lambda L: g(L)))
    pos.append(('nested:Capture-Groupi', "Capture(Group({s}, True))", lambda L: '((?i:' + L + '))'))
    pos.append(('nested:Capture-Capture', "Capture(Capture({s}, 'y'), 'x')", lambda L: '(?P<x>' + L + ')'))
    pos.append(('nested:Group-Group', "Group(Group({s}, True))", lambda L: g(L)))
    pos.append(('nested:Capture-Concat', "Capture(Concat({s}, %r))" % NEUTRAL, lambda L: '(' + g(L) + K + ')'))
    pos.append(('Conditional:pre1', "Conditional('n', {s})", lambda L: '(?(n)' + g(L) + ')'))
    pos.append(('Conditional:pre1of2', "Conditional('n', {s}, %r)" % NEUTRAL, lambda L: '(?(n)' + g(L) + '|' + K + ')'))
    pos.append(('Conditional:pre2', "Conditional('n', %r, {s})" % NEUTRAL, lambda L: '(?(n)' + K + '|' + g(L) + ')'))
    return pos


_POS = None


def _task_positions(arg):
    global _POS
    if _POS is None:
        _POS = [(lab, compile(tmpl.format(s='_s'), '<pos>', 'eval'), tmpl, ref) for lab, tmpl, ref in positions()]
    dsl.setup_worker()
    viol, n, by_tree, by_texts = [], 0, 0, 0
    ns = dict(NS)
    for s in arg:
        ns['_s'] = s
        L = rx.lit(s)
        for lab, code, tmpl, ref in _POS:
            n += 1
            expr = tmpl.format(s=repr(s))
            try:
                r = eval(code, ns)
            except Exception as e:  # noqa: BLE001
                viol.append(V('C01|%s|%r|raised:%s' % (lab, s, type(e).__name__),
                              f"{expr} raised {type(e).__name__} for a plain string argument", 'r = ' + expr))
                continue
            reftext = ref(L)
            if isinstance(reftext, tuple) or reftext is None:
                continue
            v, detail = rx.equiv(str(r), reftext)
            if v == 'tree':
                by_tree += 1
            elif v == 'texts':
                by_texts += 1
            elif v == 'error_b':
                raise common.Internal(f'reference {reftext!r} for {expr} does not parse: {detail}')
            else:
                viol.append(V('C01|%s|%r|%s' % (lab, s, 'uncompilable' if v == 'error_a' else 'not-literal'),
                              f"{expr} -> {str(r)!r}: the string is not matched literally (reference {reftext!r}): {detail}",
                              f"from mc import rx\nr = {expr}\nv = rx.equiv(str(r), {reftext!r})\n"
                              f"assert v[0] in ('tree', 'texts'), (str(r), v)"))
    return viol, n, by_tree, by_texts


_SEED_CODE = r'''
import sys, json
from mc.env import NS
P = NS['Pregex']
lits = json.load(open(sys.argv[1]))
out = []
for s in lits:
    try:
        out.append(str(P(s)))
    except BaseException as e:
        out.append(None)
print(json.dumps(out))
'''


def run_C01(run):
    thorough = run.tier == 'thorough'
    # (a)
    if thorough:
        ranges = [(i, min(i + 0x4000, 0x110000)) for i in range(0, 0x110000, 0x4000)]
    else:
        ranges = [(i, i + 0x400) for i in range(0, 0x3000, 0x400)]
        ranges += [(b - 2, b + 2) for b in (0xd800, 0xe000, 0xfffe, 0x10000, 0x1f600, 0x20000, 0xe0000, 0x10fffe)]
    n_cp = 0
    for viol, n in common.pmap(_task_codepoints, ranges):
        run.add(viol)
        n_cp += n
    # (b)
    lits = al.all_literals()
    if thorough:
        esc = list("\\^$()[]{}?+*.|/") + ['a', '\n']
        seen = set(lits)
        for t in itertools.product(esc, repeat=3):
            s = ''.join(t)
            if s not in seen:
                seen.add(s)
                lits.append(s)
    texts = []
    for viol, tx in common.pmap(_task_literals, common.chunks(lits, 200)):
        run.add(viol)
        texts.extend(tx)
    # (c)
    pos_lits = lits if thorough else al.all_literals()
    n_pos = by_tree = by_texts = 0
    for viol, n, bt, bx in common.pmap(_task_positions, common.chunks(pos_lits, 40)):
        run.add(viol)
        n_pos += n
        by_tree += bt
        by_texts += bx
    # (d) other hash seeds
    import os
    import tempfile
    seeds = [16 * run.seed + i + 1 for i in range(16 if thorough else 4)]
    td = tempfile.mkdtemp(prefix='c01_')
    try:
        path = os.path.join(td, 'lits.json')
        json.dump(lits, open(path, 'w'))

        def one(seed):
            r = common.run_py(_SEED_CODE, hashseed=seed, args=(path,))
            if r.returncode != 0:
                raise common.Internal('seed subprocess failed: ' + r.stderr[-500:])
            return json.loads(r.stdout.strip().splitlines()[-1])
        from concurrent.futures import ThreadPoolExecutor
        with ThreadPoolExecutor(8) as ex:
            outs = list(ex.map(one, seeds))
    finally:
        import shutil
        shutil.rmtree(td, ignore_errors=True)
    for seed, out in zip(seeds, outs):
        for s, a, b in zip(lits, texts, out):
            if a is not None and b is not None and a != b:
                run.add([V('C01|hashseed|%r' % s,
                           f"Pregex({s!r}) is {b!r} under PYTHONHASHSEED={seed} but {a!r} in this process",
                           f"# run with PYTHONHASHSEED={seed}\nprint(str(Pregex({s!r})))")])
    run.merge_counts({'codepoints': n_cp, 'literals': len(lits), 'position_constructions': n_pos,
                      'positions': len(positions()), 'decided_by_tree': by_tree, 'decided_by_texts': by_texts,
                      'hash_seeds_compared': len(seeds)})
    for s in ('a.b', 'US$', '[', '\\\\'):
        run.sample({'literal': s, 'emitted': str(NS['Pregex'](s)), 'reference': rx.lit(s)})
    run.sample({'position': positions()[3][1].format(s=repr('a|b')), 'reference': positions()[3][2](rx.lit('a|b'))})
    n = n_cp + len(lits) + n_pos
    cov = {
        'states': n_cp + len(lits),
        'transitions': n_pos,
        'traces_validated_against_impl': n + len(lits) * len(seeds),
        'evaluations': n,
        'distinct_nontrivial': len(lits) + n_cp,
        'rule': 'every code point (a), every literal of the alphabet (b), every (str position, literal) pair (c); '
                'a case is one construction on the real library; all distinct by construction',
        'exhaustive': True,
        'bounds': {'codepoints': 'all 1,114,112' if thorough else 'U+0000..U+2FFF and 8 plane boundaries',
                   'literal_length': '<=2 over 45 symbols + curated' + (' + all triples over the escape set' if thorough else ''),
                   'hash_seeds': seeds},
    }
    return cov, ['parse-tree equality with Seq[Lit] proves exact-match(t) <=> t == s for all t',
                 'hash seeds for the escape loop are a listed finite set, not all 2^32']
