"""C04 - quantifier bounds, greediness and spellings are exact.

For every operand (atoms and depth-1 states of the DSL graph, incl. already-quantified, alternated,
grouped, empty-matching and the empty pattern), every quantifier in every spelling, every bound
tuple over D = {-1, 0, 1, 2, 3, 5, None, True, 1.0, '1'} and both greediness settings:
 (i)   structure: the result is equivalent to (?:X){n,m}[?] with the documented identities
 (ii)  counting, executed: for operands with an unambiguous witness w, fullmatch(w^k) <=> n<=k<=m and
       a greedy/lazy prefix match consumes min(K,m)/n copies
 (iii) all equivalent spellings give the same outcome (same text / same exception class)
 (iv)  rejection: the documented exception class, from an independent decision table
"""
import itertools
import re

from .. import alphabet as al, common, dsl, explore, rx
from ..common import V
from ..env import NS

from ..env import IntSub  # noqa: E402
D = [-1, 0, 1, 2, 3, 5, None, True, False, 1.0, 0.0, '1', IntSub(2)]
INT = lambda v: isinstance(v, int) and not isinstance(v, bool)  # noqa: E731


def table(name, args):
    """independent decision table -> ('type'|'value'|'ok', lo, hi)"""
    if name in ('exactly', 'mul', 'rmul'):
        n, = args
        if not INT(n):
            return 'type', None, None
        if n < 0:
            return 'value', None, None
        return 'ok', n, n
    if name == 'at_least':
        n, = args
        if not INT(n):
            return 'type', None, None
        if n < 0:
            return 'value', None, None
        return 'ok', n, None
    if name == 'at_most':
        n, = args
        if n is None:
            return 'ok', 0, None
        if not INT(n):
            return 'type', None, None
        if n < 0:
            return 'value', None, None
        return 'ok', 0, n
    if name == 'at_least_at_most':
        n, m = args
        if not INT(n) or not (m is None or INT(m)):
            return 'type', None, None
        if n < 0 or (m is not None and (m < 0 or m < n)):
            return 'value', None, None
        return 'ok', n, m
    raise KeyError(name)


EXC = {'type': 'InvalidArgumentTypeException', 'value': 'InvalidArgumentValueException'}


def forms():
    """-> list of (name, args, greedy, [(label, expr template over _o)])"""
    out = []
    for n in D:
        out.append(('exactly', (n,), None, [('method', '_o.exactly(%r)' % (n,)), ('class', 'Exactly(_o, %r)' % (n,)),
                                            ('mul', '_o * %r' % (n,)), ('rmul', '%r * _o' % (n,))]))
    for gr in (True, False):
        for n in D:
            out.append(('at_least', (n,), gr, [('method', '_o.at_least(%r, %r)' % (n, gr)), ('class', 'AtLeast(_o, %r, %r)' % (n, gr)),
                                               ('kw', '_o.at_least(n=%r, is_greedy=%r)' % (n, gr))]))
            out.append(('at_most', (n,), gr, [('method', '_o.at_most(%r, %r)' % (n, gr)), ('class', 'AtMost(_o, %r, %r)' % (n, gr))]))
        for n, m in itertools.product(D, D):
            out.append(('at_least_at_most', (n, m), gr,
                        [('method', '_o.at_least_at_most(%r, %r, %r)' % (n, m, gr)),
                         ('class', 'AtLeastAtMost(_o, %r, %r, %r)' % (n, m, gr))]))
        out.append(('optional', (), gr, [('method', '_o.optional(%r)' % gr), ('class', 'Optional(_o, %r)' % gr),
                                         ('alam', '_o.at_least_at_most(0, 1, %r)' % gr), ('atmost', '_o.at_most(1, %r)' % gr)]))
        out.append(('indefinite', (), gr, [('method', '_o.indefinite(%r)' % gr), ('class', 'Indefinite(_o, %r)' % gr),
                                           ('alam', '_o.at_least_at_most(0, None, %r)' % gr), ('atleast', '_o.at_least(0, %r)' % gr),
                                           ('atmost', '_o.at_most(None, %r)' % gr)]))
        out.append(('one_or_more', (), gr, [('method', '_o.one_or_more(%r)' % gr), ('class', 'OneOrMore(_o, %r)' % gr),
                                            ('alam', '_o.at_least_at_most(1, None, %r)' % gr), ('atleast', '_o.at_least(1, %r)' % gr)]))
    return out


_FORMS = None


def _bounds(name, args):
    if name == 'optional':
        return 'ok', 0, 1
    if name == 'indefinite':
        return 'ok', 0, None
    if name == 'one_or_more':
        return 'ok', 1, None
    return table(name, args)


def _spell_code(xexpr, srcs, lab_a, lab_b):
    lines = ['x = ' + xexpr, 'def outcome(f):', '    try:', "        return ('ok', str(f()))", '    except Exception as e:',
             "        return ('raise', type(e).__name__)",
             'a = outcome(lambda: %s)' % srcs[lab_a].replace('_o', 'x'),
             'b = outcome(lambda: %s)' % srcs[lab_b].replace('_o', 'x'),
             'assert a == b, (a, b)']
    return '\n'.join(lines)


def _context_sensitive(t):
    if t[0] in ('look', 'at'):
        return True
    return any(isinstance(x, tuple) and x and isinstance(x[0], str) and _context_sensitive(x) for x in t[1:])


def witness(text):
    """-> (w, K) such that w^k is a k-fold repetition of X and of no other count, for k<=K; or None"""
    try:
        p = rx.parse(text)
    except re.error:
        return None
    if p.inctx or rx.has_ref(p.tree) or _context_sensitive(p.tree):
        return None       # counting on repetitions of a witness only makes sense for context-free operands
    try:
        cx = re.compile('(?:' + text + ')', rx.FLAGS)
    except re.error:
        return None
    sigma = rx.alphabet([p.tree], limit=5)
    ws = None
    for L in (1, 2, 3):
        for t in itertools.product(sigma, repeat=L):
            s = ''.join(t)
            if cx.fullmatch(s):
                ws = s
                break
        if ws:
            break
    if not ws:
        return None
    K = 8
    try:
        reps = [re.compile('(?:' + text + '){%d}' % j, rx.FLAGS) for j in range(K + 1)]
    except re.error:
        return None
    for k in range(K + 1):
        for j in range(K + 1):
            if bool(reps[j].fullmatch(ws * k)) != (j == k):
                return None
    # also: every prefix of w^K that X{j} can match from position 0 has length exactly j*|w|
    for j in range(K + 1):
        for L in range(len(ws) * K + 1):
            if reps[j].fullmatch((ws * K)[:L]) and L != j * len(ws):
                return None
    return ws, K


# other uses of the operand object between two evaluations of the same quantifier form
DISTURB = ["Group(_o, True)", "_o.group(True)", "_o.capture('w')", "Capture(_o)", "_o + 'x'", "'x' + _o", "Either(_o, 'x')", "_o.optional(False)",
           "_o.get_matches('ab ba')", "_o.has_match('')", "_o.get_pattern()", "Indefinite(_o, False)", "_o * 3", "_o.at_least_at_most(2, 3, False)",
           "FollowedBy('x', _o)", "_o.match_at_start()",
           # calls that raise: nothing may be left half-updated
           "_o.exactly(-1)", "_o.at_least_at_most(3, 1)", "_o.at_most(True)", "_o * 1.5", "_o.capture('1bad')", "_o + 5", "_o.replace('a', 'b', -1)",
           "_o.get_matches('/nonexistent/dir/f.txt', is_path=True)", "NotFollowedBy(_o, Pregex())", "PrecededBy('x', OneOrMore(_o))"]


def _task(descs):
    global _FORMS
    if _FORMS is None:
        _FORMS = [(name, args, gr, [(lab, compile(src, '<q>', 'eval'), src) for lab, src in sp])
                  for name, args, gr, sp in forms()]
    dsl.setup_worker()
    viol = []
    cnt = {'executions': 0, 'forms': 0, 'structure_by_tree': 0, 'structure_by_texts': 0, 'counting_checks': 0,
           'operands_with_witness': 0, 'rejections': 0, 'cannot_be_repeated': 0}
    ns = dict(NS)
    for d in descs:
        x = explore.undesc(d)
        ns['_o'] = x.obj
        X = x.text
        wit = witness(X) if X else None
        if wit:
            cnt['operands_with_witness'] += 1
        first = {}
        for name, args, gr, spell in _FORMS:
            cnt['forms'] += 1
            verdict, lo, hi = _bounds(name, args)
            outs = []
            for lab, code, src in spell:
                cnt['executions'] += 1
                try:
                    outs.append((lab, ('ok', eval(code, ns))))
                except Exception as e:  # noqa: BLE001
                    outs.append((lab, ('raise', e)))
            label = '%s%r|%s|%s' % (name, args, 'greedy' if gr else ('lazy' if gr is False else '-'), x.expr)

            def code_for(lab):
                src = dict((l, s) for l, _, s in spell)[lab]
                return 'x = %s\nr = %s' % (x.expr, src.replace('_o', 'x'))
            # (iv) rejection
            if verdict != 'ok':
                cnt['rejections'] += 1
                for lab, (k, v) in outs:
                    got = type(v).__name__ if k == 'raise' else 'returned ' + repr(str(v))
                    if got != EXC[verdict]:
                        viol.append(V('C04|reject|' + label + '|' + lab,
                                      f"{x.expr}: {name}{args} ({lab}) must raise {EXC[verdict]}, got {got}",
                                      code_for(lab).replace('\nr = ', '\ntry:\n    r = ') +
                                      f"\nexcept {EXC[verdict]}:\n    pass\nelse:\n    raise AssertionError('accepted: ' + str(r))"))
                continue
            # (iii) spellings agree
            sigs = [(lab, dsl.outcome_sig(o)) for lab, o in outs]
            first[(name, repr(args), gr)] = sigs[0]
            for lab, sig in sigs[1:]:
                if sig != sigs[0][1]:
                    viol.append(V('C04|spelling|' + label + '|' + lab,
                                  f"{x.expr}: {name}{args} {sigs[0][0]} -> {sigs[0][1]!r} but {lab} -> {sig!r}",
                                  _spell_code(x.expr, dict((l, s_) for l, _, s_ in spell), sigs[0][0], lab)))
            kind, val = outs[0][1]
            if kind == 'raise':
                if type(val).__name__ == 'CannotBeRepeatedException':
                    cnt['cannot_be_repeated'] += 1
                    # whether a buried anchor justifies it is C09's question; an operand without any anchor or positive lookaround,
                    # or a bound that cannot repeat, never does - then the quantifier simply failed to match k repetitions
                    try:
                        from ..monitors import _has_anchor_or_poslook
                        clean = not _has_anchor_or_poslook(rx.parse(X).tree)
                    except re.error:
                        clean = False
                    if clean or (hi is not None and hi <= 1):
                        viol.append(V('C04|refused|' + label,
                                      f"{x.expr}: {name}{args} raised CannotBeRepeatedException although " +
                                      ('the operand contains no anchor or positive lookaround' if clean else 'the bound cannot repeat'),
                                      code_for(outs[0][0])))
                else:
                    viol.append(V('C04|raised|' + label, f"{x.expr}: {name}{args} raised {type(val).__name__}",
                                  code_for(outs[0][0])))
                continue
            # (i) structure
            R = str(val)
            ref = dsl._q(lo, hi, gr is False)(X)
            v, detail = rx.equiv(R, ref)
            if v in ('tree', 'texts'):
                cnt['structure_by_' + v] += 1
            elif v != 'error_b':
                viol.append(V('C04|structure|' + label,
                              f"{x.expr}: {name}{args} greedy={gr} -> {R!r}, expected the equivalent of {ref!r}: {detail}",
                              code_for(outs[0][0]) + f"\nfrom mc import rx\nv = rx.equiv(str(r), {ref!r})\nassert v[0] in ('tree', 'texts'), (str(r), v)"))
                continue
            # (ii) counting, executed on the real object
            if wit and (lo, hi) != (1, 1) and R:
                w, K = wit
                top = (hi if hi is not None else lo) + 2
                if top <= K:
                    for k in range(top + 1):
                        cnt['counting_checks'] += 1
                        exp = lo <= k and (hi is None or k <= hi)
                        if val.is_exact_match(w * k) != exp:
                            viol.append(V('C04|count|' + label,
                                          f"{x.expr}: {name}{args} -> {R!r}: is_exact_match({w!r}*{k}) is {not exp}",
                                          code_for(outs[0][0]) + f"\nassert r.is_exact_match({w!r} * {k}) == {exp}"))
                            break
                    m = re.compile(R, rx.FLAGS).match(w * K)
                    want = (min(K, hi) if hi is not None else K) if gr is not False else lo
                    if lo == hi:
                        want = lo
                    got = None if m is None else m.end()
                    if got != want * len(w):
                        viol.append(V('C04|greed|' + label,
                                      f"{x.expr}: {name}{args} greedy={gr} -> {R!r} consumes {got} characters of {w!r}*{K}, expected {want * len(w)}",
                                      code_for(outs[0][0]) + f"\nimport re\nm = re.compile(str(r), 24).match({w!r} * {K})\nassert m and m.end() == {want * len(w)}"))
        # (v) the operand is a value: after other uses of the same object every quantifier gives what it gave before
        for dsrc in DISTURB:
            try:
                eval(dsrc, ns)
            except Exception:  # noqa: BLE001
                pass
        cnt['reuse_checks'] = cnt.get('reuse_checks', 0)
        for name, args, gr, spell in _FORMS:
            if (name, repr(args), gr) not in first:
                continue
            lab0, sig0 = first[(name, repr(args), gr)]
            lab, code, src = spell[0]
            cnt['executions'] += 1
            cnt['reuse_checks'] += 1
            try:
                o = ('ok', eval(code, ns))
            except Exception as e:  # noqa: BLE001
                o = ('raise', e)
            sig = dsl.outcome_sig(o)
            if sig != sig0:
                viol.append(V('C04|reuse|%s%r|%s|%s' % (name, args, gr, x.expr),
                              f"{x.expr}: {name}{args} gave {sig0!r} on the fresh operand but {sig!r} after the same object had been used in "
                              f"{', '.join(DISTURB)}",
                              'x = %s\ndef outcome(f):\n    try:\n        return (\'ok\', str(f()))\n    except Exception as e:\n        return (\'raise\', type(e).__name__)\n'
                              'a = outcome(lambda: %s)\nfor d in %r:\n    try:\n        eval(d.replace(\'_o\', \'x\'))\n    except Exception:\n        pass\n'
                              'b = outcome(lambda: %s)\nassert a == b, (a, b)' % (x.expr, src.replace('_o', 'x'), DISTURB, src.replace('_o', 'x'))))
                break
    return viol, cnt


def operands(tier):
    core, small, tiny = al.core_atoms(), al.small_atoms(), al.tiny_atoms()
    L = explore.Level
    ops = dsl.core_quantifier_ops() + dsl.group_ops() + dsl.anchor_ops()
    atoms = core if tier == 'thorough' else small
    partners = small if tier == 'thorough' else tiny
    res = explore.run(dsl.safe_atoms(atoms),
                      [L(ops, dsl.binary_ops(), partners, (0, 1), 'depth 1'), L([], [], [], (0,), 'collect')],
                      [], nested_tail=False)
    return res


def run_C04(run):
    # operands = atoms + all depth-1 states
    core = al.core_atoms()
    res = operands(run.tier)
    descs = {}
    for a in dsl.safe_atoms(core, run):
        if rx.compiles(a.text)[0]:
            descs[explore.h64(a.key())] = explore.desc(a)
    descs.update(res['frontier'])
    extra = ["Pregex('e\\u0301')", "Pregex('a\\u0300\\u0301')", "Pregex('\\u0301')", "Pregex('\\U0001f600')", "Pregex('\\ud800')", "Pregex('\\x00')",
             "Pregex('a\\ufe0f')", "AnyFrom('\\u0301')", "Pregex('}')", "Pregex('a{2}')", "Indefinite('a')", "OneOrMore('a')", "Optional('a', False)", "Indefinite(AnyDigit())", "AtLeastAtMost('ab', 1, 2)", "AtLeast('a', 2)",
             "AtMost('a', 2, False)", "Indefinite(Either('a', 'b'))", "OneOrMore(Capture('a'))", "Indefinite(Indefinite('a'))", "Exactly('a', 2)",
             "Optional(Optional('a'))", "OneOrMore('ab', False)", "Indefinite(Group('ab'))"]
    for a in dsl.safe_atoms([(e, None) for e in extra] + al.confuser_atoms(), run):
        descs.setdefault(explore.h64(a.key()), explore.desc(a))
    dl = list(descs.values())
    total = {}
    for viol, cnt in common.pmap(_task, common.chunks(dl, max(1, len(dl) // (8 * common.NPROC) + 1))):
        run.add(viol)
        for k, v in cnt.items():
            total[k] = total.get(k, 0) + v
    run.merge_counts(total)
    fs = forms()
    for name, args, gr, sp in (fs[3], fs[45], fs[200]):
        run.sample({'operand': dl[len(dl) // 2][0], 'form': name, 'args': repr(args), 'greedy': gr, 'spellings': [s for _, s in sp]})
    cov = {
        'states': len(dl),
        'transitions': total['forms'],
        'traces_validated_against_impl': total['executions'] + total['counting_checks'],
        'evaluations': total['executions'],
        'distinct_nontrivial': total['forms'],
        'rule': 'operands: all atoms and all depth-1 states of the DSL graph; forms: every quantifier x bound tuple over '
                f'{D!r} x greediness x spelling; each (operand, form) is distinct',
        'exhaustive': True,
        'bounds': {'operands': len(dl), 'forms_per_operand': len(fs), 'bound_domain': [repr(v) for v in D], 'witness_repetitions': 8},
    }
    return cov, ['counting is executed only for operands with an unambiguous witness (decided by brute force over X{j}, j<=8); '
                 'for the others the structural equivalence with (?:X){n,m} stands alone']
