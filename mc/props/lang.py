"""C17 (Numeral/Word/Word*), C18 (IPv4/IPv6 by automaton product), C19 (Date)."""
import ipaddress
import itertools
import re
import string

from .. import automata as au, common, den, rx
from ..common import V
from ..env import NS

HEX = string.hexdigits


def dsl_is_lib_exc(e):
    from .. import dsl
    return dsl.is_lib_exc(e)


def _mk(expr):
    return eval(expr, NS)


# ----------------------------------------------------------------------------------
# C18
# ----------------------------------------------------------------------------------
def v4_step(st, ch):
    idx, cur = st
    if ch in string.digits:
        nxt = cur + ch
        if len(nxt) > 1 and nxt[0] == '0':
            return None
        if int(nxt) > 255:
            return None
        return (idx, nxt)
    if ch == '.':
        if cur == '' or idx == 3:
            return None
        return (idx + 1, '')
    return None


def v4_accept(st):
    return st[0] == 3 and st[1] != ''


def v6_step(st, ch):
    g, c, dc, prev = st       # complete groups, digits in current group, '::' seen, previous symbol kind
    if ch in HEX:
        if c == 4:
            return None
        if prev == 'startcolon':
            return None
        if c == 0 and g + 1 > (7 if dc else 8):
            return None
        return (g, c + 1, dc, 'h')
    if ch == ':':
        if prev == 'h':
            if g + 1 > 8:
                return None
            return (g + 1, 0, dc, 'colon')
        if prev == 'colon' or prev == 'startcolon':
            if dc:
                return None
            return (g, 0, True, 'dcolon')
        if prev == 'start':
            return (g, 0, dc, 'startcolon')
        return None           # ':::'
    return None


def v6_accept(st):
    g, c, dc, prev = st
    if not dc:
        return prev == 'h' and g + 1 == 8
    if prev == 'h':
        return g + 1 <= 7
    if prev == 'dcolon':
        return g <= 7
    return False


def ip_truth(kind, s):
    try:
        (ipaddress.IPv4Address if kind == 'IPv4' else ipaddress.IPv6Address)(s)
        return True
    except ValueError:
        return False


def has_construct(t, kinds):
    if t[0] in kinds:
        return True
    return any(isinstance(x, tuple) and x and isinstance(x[0], str) and has_construct(x, kinds) for x in t[1:])


def language_check(pid, expr, ref_start, ref_step, ref_accept, extra_points, truth=None, truth_alphabet=None):
    """product of the NFA of the emitted pattern with the reference; -> (violations, stats)"""
    try:
        p = _mk(expr)
        text = str(p)
        tree = rx.parse(text, False).tree
    except Exception as e:  # noqa: BLE001
        return [V(f'{pid}|{expr}|raised:{type(e).__name__}', f"{expr} cannot be built / compiled: {type(e).__name__}: {e}",
                  f"import re\nre.compile(str({expr}), 24)")], {}
    if has_construct(tree, ('look', 'at', 'ref', 'cond', 'flag')):
        return [V(f'{pid}|{expr}|not-regular-form', f"{expr} -> {text!r} contains assertions; the extensible form must not",
                  f"from mc import rx\nfrom mc.props.lang import has_construct\nassert not has_construct(rx.parse(str({expr})).tree, ('look', 'at', 'ref', 'cond', 'flag'))")], {}
    nodes = []
    au.char_nodes(tree, nodes)
    cells = au.partition([au.node_set(n) for n in nodes], extra_points)
    reps = [chr(lo) for lo, hi in cells]
    nfa, s, e = au.build(tree, cells)
    states, ntr = au.product(nfa, s, e, cells, ref_start, ref_step, ref_accept, reps)
    cre = re.compile(text, rx.FLAGS)
    viol = []
    validated = 0
    for acc_str, a_nfa, a_ref in states:
        real = bool(cre.fullmatch(acc_str))
        if real != a_nfa:
            raise common.Internal(f'regex->NFA translation wrong on {acc_str!r} for {expr}: re says {real}, NFA says {a_nfa}')
        try:
            lib = p.is_exact_match(acc_str)
        except Exception as e:  # noqa: BLE001
            lib = 'raised ' + type(e).__name__
        if real != lib:
            # the library's own exact-match verdict is what the property is about
            if lib != a_ref:
                viol.append(V(f'{pid}|{expr}|language|{acc_str}',
                              f"{expr}.is_exact_match({acc_str!r}) is {lib}, the standard says {a_ref} (re.fullmatch on the emitted pattern: {real})",
                              f"p = {expr}\nassert p.is_exact_match({acc_str!r}) == {a_ref}"))
                continue
        validated += 1
        if truth is not None and (truth_alphabet is None or all(ch in truth_alphabet for ch in acc_str)):
            tv = truth(acc_str)
            if tv != a_ref:
                raise common.Internal(f'reference automaton wrong on {acc_str!r} for {expr}: ground truth {tv}, reference {a_ref}')
            validated += 1
        if a_nfa != a_ref:
            viol.append(V(f'{pid}|{expr}|language|{acc_str}',
                          f"{expr}.is_exact_match({acc_str!r}) is {a_nfa}, the standard says {a_ref}",
                          f"p = {expr}\nassert p.is_exact_match({acc_str!r}) == {a_ref}"))
    return viol, {'product_states': len(states), 'product_transitions': ntr, 'nfa_states': len(nfa.eps), 'cells': len(cells),
                  'validated': validated, 'accepting': [s for s, a, r in states if a and r], 'strings': [(s, r) for s, a, r in states]}


def strip_boundaries(t):
    """removes \\b nodes (IPv6's non-extensible hex groups are word-bounded) and re-normalises sequences"""
    if not isinstance(t, tuple) or not t or not isinstance(t[0], str):
        return t
    if t[0] == 'seq':
        items = [strip_boundaries(x) for x in t[1:] if x != ('at', 'AT_BOUNDARY')]
        return rx._seq(items)
    return tuple(strip_boundaries(x) for x in t)


def guard_shape_ok(kind, guard):
    """the non-extensible pattern is (?<![guard]) + the extensible pattern (modulo \\b) + (?![guard])"""
    p = _mk(f'{kind}()')
    ext_tree = rx.parse(str(_mk(f'{kind}(is_extensible=True)')), False).tree
    tree = strip_boundaries(rx.parse(str(p), False).tree)
    items = list(tree[1:]) if tree[0] == 'seq' else [tree]
    ext_items = list(ext_tree[1:]) if ext_tree[0] == 'seq' else [ext_tree]
    ok_shape = (len(items) >= 3 and items[0][0] == 'look' and items[0][1] < 0 and items[0][2]
                and items[-1][0] == 'look' and items[-1][1] > 0 and items[-1][2] and items[1:-1] == ext_items)
    if ok_shape:
        for g in (items[0][3], items[-1][3]):
            try:
                d, m = den.of_tree(g)
            except ValueError:
                return False
            if den.diff(d, m) != den.diff(den.from_chars(guard), m):
                return False
    return bool(ok_shape)


def embedded_check(pid, kind, accepted, guard, viol, cnt):
    p = _mk(f'{kind}()')
    ok_shape = guard_shape_ok(kind, guard)
    # the shape is evidence only (an equivalent refactoring of the guards must not raise an alarm);
    # the guards are judged by behaviour below
    cnt['structure_checks'] = cnt.get('structure_checks', 0) + 1
    cnt['guard_shape_is_lookbehind_pattern_lookahead'] = cnt.get('guard_shape_is_lookbehind_pattern_lookahead', 0) + int(ok_shape)
    # (ii) embedded occurrences
    clean = ['', ' ', 'x'] if kind == 'IPv4' else ['', ' ', '-']
    glue = sorted(set(guard[:2] + guard[-1:]))
    if kind == 'IPv6':
        # the access strings are written with the smallest digit of every cell; the same addresses with letter-initial, mixed-case and
        # four-digit groups (which alternative of the pattern reports the address must not depend on how its groups are spelled)
        variants = []
        for s in accepted:
            for f in (lambda g: g, lambda g: 'a' + g[1:], lambda g: 'F' * len(g), lambda g: (g + 'b0c')[:4], lambda g: 'ab0'[:max(1, len(g))] if len(g) < 3 else g):
                v = ':'.join(f(g) if g else g for g in s.split(':'))
                if v not in variants and ip_truth(kind, v):
                    variants.append(v)
        accepted = variants
    for s in accepted:
        for L in clean + glue:
            for Rt in clean + glue:
                t = L + s + Rt
                got = p.get_matches_and_pos(t)
                cnt['embedded_texts'] = cnt.get('embedded_texts', 0) + 1
                bad = None
                for m, a, b in got:
                    if (a > 0 and t[a - 1] in guard) or (b < len(t) and t[b] in guard):
                        bad = f"reported {m!r} at {a}:{b}, glued to {t[a - 1:a]!r}/{t[b:b + 1]!r}"
                if bad is None and L in clean and Rt in clean:
                    if (s, len(L), len(L) + len(s)) not in got:
                        bad = f"the address between clean delimiters is not reported (got {got})"
                if bad:
                    need = (s, len(L), len(L) + len(s)) if (L in clean and Rt in clean) else None
                    viol.append(V(f'{pid}|{kind}()|embedded|{t}', f"{kind}(): in {t!r} {bad}",
                                  f"p = {kind}()\ngot = p.get_matches_and_pos({t!r})\nguard = {guard!r}\nt = {t!r}\n"
                                  f"assert not any((a > 0 and t[a - 1] in guard) or (b < len(t) and t[b] in guard) for m, a, b in got), got\n"
                                  f"need = {need!r}\nassert need is None or need in got, got"))


def run_C18(run):
    tot = {}
    samples = []
    for kind, start, step, acc, pts, alpha, guard in (
            ('IPv4', (0, ''), v4_step, v4_accept, string.digits + '.', string.digits + '.', string.digits + '.'),
            ('IPv6', (0, 0, False, 'start'), v6_step, v6_accept, HEX + ':' + 'gG.', HEX + ':', string.digits + ':')):
        expr = f'{kind}(is_extensible=True)'
        viol, st = language_check('C18', expr, start, step, acc, pts,
                                  truth=lambda s, k=kind: ip_truth(k, s), truth_alphabet=alpha)
        run.add(viol)
        for k in ('product_states', 'product_transitions', 'nfa_states', 'validated'):
            tot[k] = tot.get(k, 0) + st.get(k, 0)
        accepted = st.get('accepting', [])
        samples.append({'pattern': expr, 'product_states': st.get('product_states'), 'accepting_access_strings': accepted[:6]})
        cnt = {}
        v2 = []
        sel = accepted if run.tier == 'thorough' else (accepted[:20] + accepted[20::max(1, len(accepted) // 60)])
        try:
            _mk(f'{kind}()')
        except Exception as e:  # noqa: BLE001
            run.add([V(f'C18|{kind}()|raised:{type(e).__name__}', f"{kind}() raised {type(e).__name__}", f'p = {kind}()')])
            continue
        if sel:
            embedded_check('C18', kind, sel, guard, v2, cnt)
        # the non-extensible form exact-matches the same language (its guards are vacuous at the ends of the text):
        # every access string of the product, accepted or not, through both instances' is_exact_match (plain and compiled)
        pn, pnc = _mk(f'{kind}()'), _mk(f'{kind}()')
        pnc.compile()
        nbad = 0
        for i, (s, want) in enumerate(st.get('strings', [])):
            cnt['nonextensible_exact'] = cnt.get('nonextensible_exact', 0) + 1
            try:
                got = (pnc if i % 2 else pn).is_exact_match(s)
            except Exception as e:  # noqa: BLE001
                got = 'raised ' + type(e).__name__
            if got != want and nbad < 5:
                nbad += 1
                v2.append(V(f'C18|{kind}()|exact|{s}', f"{kind}().is_exact_match({s!r}) is {got}, the standard says {want}",
                            f"p = {kind}()\nassert p.is_exact_match({s!r}) == {want}\np.compile()\nassert p.is_exact_match({s!r}) == {want}"))
        run.add(v2)
        for k, v in cnt.items():
            tot[k] = tot.get(k, 0) + v
        # a few fixed well-known addresses, both directions, against ipaddress
        fixed = {'IPv4': ['0.0.0.0', '255.255.255.255', '256.1.1.1', '1.2.3', '1.2.3.4.5', '01.2.3.4', '1..2.3', '1.2.3.4.', '192.168.1.1', '25.255.249.250', '1.2.3.256'],
                 'IPv6': ['::', '::1', '1::', '1:2:3:4:5:6:7:8', '1:2:3:4:5:6:7::', '::2:3:4:5:6:7:8', '1:2:3::4:5:6:7:8', '1::2::3', ':::', '1:2:3:4:5:6:7',
                          '12345::', 'g::', '1:2:3:4:5:6:7:8:9', '::1:2:3:4:5:6:7:8', 'FFFF:ffff::', '1:', ':1', '1:2:3:4::5:6:7', '1:2::3:4:5:6:7:8', '1:2::3:4:5:6:7', '1:2:3:4:5::6:7', '1::2:3:4:5:6:7', '1:2:3:4:5:6::7', 'a:b::c', '::ffff:1:2']}[kind]
        p = _mk(f'{kind}()')
        for s in fixed:
            tot['fixed_addresses'] = tot.get('fixed_addresses', 0) + 1
            if p.is_exact_match(s) != ip_truth(kind, s):
                run.add([V(f'C18|{kind}()|fixed|{s}', f"{kind}().is_exact_match({s!r}) is {p.is_exact_match(s)}, ipaddress says {ip_truth(kind, s)}",
                           f"p = {kind}()\nassert p.is_exact_match({s!r}) == {ip_truth(kind, s)}")])
    run.merge_counts(tot)
    for s in samples:
        run.sample(s)
    cov = {
        'states': tot['product_states'], 'transitions': tot['product_transitions'],
        'traces_validated_against_impl': tot['validated'] + tot.get('embedded_texts', 0) + tot.get('nonextensible_exact', 0),
        'evaluations': tot['product_transitions'] + tot.get('embedded_texts', 0) + tot.get('nonextensible_exact', 0), 'distinct_nontrivial': tot['product_states'],
        'rule': 'explicit-state BFS over the product of (NFA of the emitted extensible pattern) x (hand-written RFC 4291 / dotted-quad automaton); '
                'acceptance must agree in every reachable product state, so the verdict covers every string over the partitioned alphabet, of any length; '
                'every access string is replayed on re.fullmatch/is_exact_match (validates the NFA translation) and on ipaddress (validates the reference); '
                'non-extensible forms: every access string (accepted or not) through is_exact_match of a plain and a compiled instance; every accepted access string in 36 left/right contexts',
        'exhaustive': True,
        'bounds': {'alphabet': 'every digit / hex digit / separator its own cell, all other characters in the cells induced by the pattern',
                   'string_length': 'unbounded (reachable product states)'},
    }
    return cov, ['\\d inside the pattern is restricted to its ASCII core (strings over digits/hex digits/separators, as the property states)',
                 'ipaddress is the ground truth for strings over the address alphabet']


# ----------------------------------------------------------------------------------
# C17
# ----------------------------------------------------------------------------------
DIGITS = '0123456789abcdef'


def numeral_ref(base, lo, hi):
    valid = set(DIGITS[:base] + DIGITS[:base].upper())

    def step(n, ch):
        if ch in valid and (hi is None or n < hi):
            return n + 1 if (hi is not None or n < lo + 1) else n      # saturate when unbounded
        return None

    def accept(n):
        return n >= lo and (hi is None or n <= hi)
    return step, accept


def _task17_numeral(arg):
    bases, thorough = arg
    viol = []
    cnt = {'numeral_patterns': 0, 'numeral_candidates': 0, 'product_states': 0, 'product_transitions': 0, 'validated': 0}
    for base in bases:
        valid = set(DIGITS[:base] + DIGITS[:base].upper())
        sigma = ['0', DIGITS[base - 1], DIGITS[base - 1].upper(), DIGITS[base] if base < 16 else 'g', 'g', '_']
        sigma = list(dict.fromkeys(sigma))
        los, his = ((0, 1, 2, 3, 4, 5), (0, 1, 2, 3, 4, 5, 6, None)) if thorough else ((0, 1, 2, 3), (0, 1, 2, 3, None))
        for lo, hi in [(a, b) for a in los for b in his if b is None or a <= b]:
            top = (hi if hi is not None else lo + 1) + 2
            cands = [''.join(t) for l in range(1, top + 1) for t in itertools.product(sigma, repeat=l)]
            if len(cands) > (60000 if thorough else 4000):
                cands = [c for c in cands if len(set(c)) <= 2 or len(c) <= (4 if thorough else 3)]
            for ext in (False, True):
                expr = f"Numeral({base}, {lo}, {hi}{', is_extensible=True' if ext else ''})"
                try:
                    p = _mk(expr)
                except Exception as e:  # noqa: BLE001
                    viol.append(V(f'C17|{expr}|raised:{type(e).__name__}', f"{expr} raised {type(e).__name__}", 'p = ' + expr))
                    continue
                cnt['numeral_patterns'] += 1
                if str(p) == '':
                    continue
                cre = re.compile(str(p), rx.FLAGS)
                bad = 0
                for t in cands:
                    cnt['numeral_candidates'] += 1
                    want = all(ch in valid for ch in t) and lo <= len(t) and (hi is None or len(t) <= hi)
                    if bool(cre.fullmatch(t)) != want and bad < 3:
                        bad += 1
                        viol.append(V(f'C17|{expr}|{t}', f"{expr}.is_exact_match({t!r}) is {not want}",
                                      f"p = {expr}\nassert p.is_exact_match({t!r}) == {want}"))
                    if not ext:
                        got = [m.group(0) for m in cre.finditer(' ' + t + ' ')]
                        exp = [t] if want else []
                        if [g for g in got if g] != exp and bad < 3:
                            bad += 1
                            viol.append(V(f'C17|{expr}|spaced|{t}', f"{expr}: in {' ' + t + ' '!r} expected {exp}, got {got}",
                                          f"p = {expr}\nassert [m for m in p.get_matches({' ' + t + ' '!r}) if m] == {exp!r}"))
                if ext and not (lo == 0 and hi == 0):
                    step, accept = numeral_ref(base, lo, hi)
                    from .lang import language_check as lc
                    v, st = lc('C17', expr, 0, step, accept, DIGITS + DIGITS.upper() + 'gG_')
                    viol.extend(v)
                    for k in ('product_states', 'product_transitions', 'validated'):
                        cnt[k] += st.get(k, 0)
    return viol, cnt


WSIG = ['a', '_', '1', ' ', '-']


def word_runs(t):
    out, i = [], 0
    while i < len(t):
        if t[i].isalnum() or t[i] == '_':
            j = i
            while j < len(t) and (t[j].isalnum() or t[j] == '_'):
                j += 1
            out.append((t[i:j], i, j))
            i = j
        else:
            i += 1
    return out


def _task17_word(arg):
    params, thorough = arg
    viol = []
    cnt = {'word_patterns': 0, 'word_texts': 0}
    texts = [''.join(t) for l in range(0, 9 if thorough else 7) for t in itertools.product(WSIG, repeat=l)]
    for lo, hi, gl in params:
        expr = f"Word({lo}, {hi}, is_global={gl})"
        try:
            p = _mk(expr)
            q = _mk(f"Word({lo}, {hi}, is_global={gl}, is_extensible=True)")
        except Exception as e:  # noqa: BLE001
            viol.append(V(f'C17|{expr}|raised:{type(e).__name__}', f"{expr} raised {type(e).__name__}", 'p = ' + expr))
            continue
        cnt['word_patterns'] += 1
        cre = re.compile(str(p), rx.FLAGS)
        bad = 0
        for t in texts:
            cnt['word_texts'] += 1
            want = [(w, a, b) for (w, a, b) in word_runs(t) if lo <= len(w) and (hi is None or len(w) <= hi)]
            got = [(m.group(0), m.start(), m.end()) for m in cre.finditer(t)]
            if got != want and bad < 3:
                bad += 1
                viol.append(V(f'C17|{expr}|{t}', f"{expr}: in {t!r} expected {want}, got {got}",
                              f"p = {expr}\nassert p.get_matches_and_pos({t!r}) == {want!r}"))
        for t in ('aé', 'éa', 'aéa', 'é', 'aλ1', '_é'):
            cnt['word_texts'] += 1
            for pat, label in ((p, expr), (q, 'extensible ' + expr)):
                want = gl and lo <= len(t) and (hi is None or len(t) <= hi)
                if pat.is_exact_match(t) != want and bad < 5:
                    bad += 1
                    viol.append(V(f'C17|{expr}|nonascii|{label[:3]}|{t}', f"{label}: is_exact_match({t!r}) is {not want} (is_global={gl})",
                                  f"p = Word({lo}, {hi}, is_global={gl}{', is_extensible=True' if pat is q else ''})\nassert p.is_exact_match({t!r}) == {want}"))
        for t in texts:
            if ' ' in t or '-' in t or not t:
                continue
            want = lo <= len(t) and (hi is None or len(t) <= hi)
            if q.is_exact_match(t) != want and bad < 5:
                bad += 1
                viol.append(V(f'C17|{expr}|extensible|{t}', f"extensible {expr}: is_exact_match({t!r}) is {not want}",
                              f"q = Word({lo}, {hi}, is_global={gl}, is_extensible=True)\nassert q.is_exact_match({t!r}) == {want}"))
    return viol, cnt


AFFIXES = ['a', 'b', 'ab', 'a.b', 'a+b', 'a|b', '1', 'b$a', 'a(b', 'a[b]a', 'a\\b']


def _is_w(s, gl=True):
    if gl:
        return all(ch.isalnum() or ch == '_' for ch in s)
    return all((ch.isascii() and ch.isalnum()) or ch == '_' for ch in s)


def affix_model(cls, affixes, t, gl=True):
    def _w(x):
        return _is_w(x, gl)
    return _affix_model(cls, affixes, t, _w)


def _affix_model(cls, affixes, t, _is_w):
    for a in affixes:
        if cls == 'WordStartsWith':
            if t.startswith(a) and _is_w(t[len(a):]):
                return True
        elif cls == 'WordEndsWith':
            if t.endswith(a) and _is_w(t[:len(t) - len(a)]):
                return True
        else:
            i = t.find(a)
            while i != -1:
                if _is_w(t[:i]) and _is_w(t[i + len(a):]):
                    return True
                i = t.find(a, i + 1)
    return False


def _task17_affix(lists):
    viol = []
    cnt = {'affix_patterns': 0, 'affix_texts': 0}
    for cls in ('WordContains', 'WordStartsWith', 'WordEndsWith'):
        for affs in lists:
            arg = repr(affs[0]) if len(affs) == 1 else repr(list(affs))
            for ext, gl in ((False, True), (True, True), (False, False), (True, False)):
                expr = f"{cls}({arg}, is_global={gl}{', is_extensible=True' if ext else ''})"
                try:
                    p = _mk(expr)
                except Exception as e:  # noqa: BLE001
                    viol.append(V(f'C17|{expr}|raised:{type(e).__name__}', f"{expr} raised {type(e).__name__}", 'p = ' + expr))
                    continue
                cnt['affix_patterns'] += 1
                texts = set()
                for a in affs:
                    for u in ('', 'x', 'xy', '_', '1'):
                        for v in ('', 'x', 'yx', '_'):
                            t = u + a + v
                            texts.add(t)
                            for i in range(len(t)):
                                texts.add(t[:i] + t[i + 1:])
                                texts.add(t[:i] + 'z' + t[i + 1:])
                                texts.add(t[:i] + 'z' + t[i:])
                texts.discard('')
                bad = 0
                # a non-ASCII word character around the affix: part of the word iff is_global
                for a in affs:
                    for t, inner in (('é' + a, cls != 'WordStartsWith'), (a + 'é', cls != 'WordEndsWith'), ('xé' + a + 'éy', cls == 'WordContains')):
                        cnt['affix_texts'] += 1
                        want = affix_model(cls, affs, t, gl)
                        got = p.is_exact_match(t)
                        if got != want and bad < 3:
                            bad += 1
                            viol.append(V(f'C17|{expr}|nonascii|{t}', f"{expr}.is_exact_match({t!r}) is {got}, expected {want}",
                                          f"p = {expr}\nassert p.is_exact_match({t!r}) == {want}"))
                for t in sorted(texts):
                    cnt['affix_texts'] += 1
                    want = affix_model(cls, affs, t, gl)
                    got = p.is_exact_match(t)
                    if got != want and bad < 3:
                        bad += 1
                        viol.append(V(f'C17|{expr}|{t}', f"{expr}.is_exact_match({t!r}) is {got}, expected {want}",
                                      f"p = {expr}\nassert p.is_exact_match({t!r}) == {want}"))
                    if not ext and want and _is_w(t):
                        sp = ' ' + t + ' '
                        if p.get_matches(sp) != [t] and bad < 3:
                            bad += 1
                            viol.append(V(f'C17|{expr}|spaced|{t}', f"{expr}: in {sp!r} expected [{t!r}], got {p.get_matches(sp)}",
                                          f"p = {expr}\nassert p.get_matches({sp!r}) == [{t!r}]"))
    return viol, cnt


def run_C17(run):
    tot = {}
    thorough = run.tier == 'thorough'
    res = common.pmap(_task17_numeral, [([b], thorough) for b in range(2, 17)])
    wlo, whi = ((1, 2, 3, 4, 5), (1, 2, 3, 4, 5, 6, None)) if thorough else ((1, 2, 3), (1, 2, 3, None))
    wp = [(lo, hi, gl) for lo in wlo for hi in whi if hi is None or lo <= hi for gl in (True, False)]
    res += common.pmap(_task17_word, [(c, thorough) for c in common.chunks(wp, 2)])
    singles = [(a,) for a in AFFIXES]
    pairs = [(a, b) for a in AFFIXES[:7] for b in AFFIXES[:7] if a != b]
    if run.tier == 'thorough':
        pairs = [(a, b) for a in AFFIXES for b in AFFIXES if a != b]
        pairs += [(a, b, c) for a in AFFIXES[:6] for b in AFFIXES[:6] for c in AFFIXES[:8] if len({a, b, c}) == 3]
    res += common.pmap(_task17_affix, common.chunks(singles + pairs, 4))
    for viol, cnt in res:
        run.add(viol)
        for k, v in cnt.items():
            tot[k] = tot.get(k, 0) + v
    n_inv = 0
    invalid = [("Numeral(1)", 'InvalidArgumentValueException'), ("Numeral(17)", 'InvalidArgumentValueException'),
               ("Numeral('2')", 'InvalidArgumentTypeException'), ("Numeral(2.0)", 'InvalidArgumentTypeException'),
               ("Numeral(10, -1)", 'InvalidArgumentValueException'), ("Numeral(10, 2, 1)", 'InvalidArgumentValueException'),
               ("Numeral(10, '1')", 'InvalidArgumentTypeException'), ("Numeral(10, 1, 1.5)", 'InvalidArgumentTypeException'),
               ("Numeral(10, True)", 'InvalidArgumentTypeException'), ("Numeral(10, 1, True)", 'InvalidArgumentTypeException'),
               ("Numeral(10, 1, -1)", 'InvalidArgumentValueException'), ("Numeral(10, None)", 'InvalidArgumentTypeException'),
               ("Word(0)", 'InvalidArgumentValueException'), ("Word(-1)", 'InvalidArgumentValueException'),
               ("Word(2, 1)", 'InvalidArgumentValueException'), ("Word('1')", 'InvalidArgumentTypeException'),
               ("Word(1, '2')", 'InvalidArgumentTypeException'), ("Word(1, 0)", 'InvalidArgumentValueException'),
               ("Word(1.5)", 'InvalidArgumentTypeException'), ("Word(1, 2.5)", 'InvalidArgumentTypeException'),
               ("Word(None)", 'InvalidArgumentTypeException'),
               ("WordContains(1)", 'InvalidArgumentTypeException'), ("WordContains(['a', 1])", 'InvalidArgumentTypeException'),
               ("WordContains([('ab', 'cd')])", 'InvalidArgumentTypeException'), ("WordStartsWith([()])", 'InvalidArgumentTypeException'), ("WordEndsWith(['a', ('b', 'c', 'd')])", 'InvalidArgumentTypeException'),
               ("WordContains([{'a': 1}])", 'InvalidArgumentTypeException'), ("WordStartsWith([b'ab'])", 'InvalidArgumentTypeException'), ("WordEndsWith([['a', 'b']])", 'InvalidArgumentTypeException'),
               ("WordStartsWith(None)", 'InvalidArgumentTypeException'), ("WordStartsWith([None])", 'InvalidArgumentTypeException'),
               ("WordEndsWith(1.5)", 'InvalidArgumentTypeException'), ("WordEndsWith(['a', ['b']])", 'InvalidArgumentTypeException')]
    T_, V_ = 'InvalidArgumentTypeException', 'InvalidArgumentValueException'
    for lo in (0, 1, 2, -1, '1', 1.5, None):
        for hi in (0, 1, 3, None, -2, '2', 2.5):
            kinds = set()
            if not isinstance(lo, int):
                kinds.add(T_)
            elif lo < 1:
                kinds.add(V_)
            if hi is not None and not isinstance(hi, int):
                kinds.add(T_)
            elif hi is not None and hi < 1:
                kinds.add(V_)
            if isinstance(lo, int) and isinstance(hi, int) and lo > hi:
                kinds.add(V_)
            if kinds:
                invalid.append((f"Word({lo!r}, {hi!r})", '|'.join(sorted(kinds))))
    for base in (2, 16, 1, 17, '2', 2.5):
        for lo in (0, 1, -1, '1', True):
            for hi in (1, None, 0, -1, '1', True):
                kinds = set()
                if not isinstance(base, int):
                    kinds.add(T_)
                elif base < 2 or base > 16:
                    kinds.add(V_)
                if not isinstance(lo, int) or isinstance(lo, bool):
                    kinds.add(T_)
                elif lo < 0:
                    kinds.add(V_)
                if hi is not None and (not isinstance(hi, int) or isinstance(hi, bool)):
                    kinds.add(T_)
                elif hi is not None and hi < 0:
                    kinds.add(V_)
                if isinstance(lo, int) and not isinstance(lo, bool) and isinstance(hi, int) and not isinstance(hi, bool) and hi < lo:
                    kinds.add(V_)
                if kinds:
                    invalid.append((f"Numeral({base!r}, {lo!r}, {hi!r})", '|'.join(sorted(kinds))))
    for expr, exc in invalid:
        n_inv += 1
        try:
            _mk(expr)
            got = 'returned'
        except Exception as e:  # noqa: BLE001
            got = type(e).__name__
        if got not in exc.split('|'):
            run.add([V(f'C17|{expr}|invalid', f"{expr} -> {got}, expected {exc}",
                       f"try:\n    {expr}\nexcept ({exc.replace('|', ', ')}):\n    pass\nelse:\n    raise AssertionError")])
    # the same arguments in other legal forms: instances of int / str subclasses (what enum.IntEnum members are), keyword spellings
    from .numeric import _same_value_forms
    pairs = []
    for ext in (False, True):
        pairs += [(f"Numeral(IntSub(8), 1, 2, {ext})", f"Numeral(8, 1, 2, {ext})"), (f"Numeral(8, IntSub(1), 2, {ext})", f"Numeral(8, 1, 2, {ext})"),
                  (f"Numeral(8, 1, IntSub(2), {ext})", f"Numeral(8, 1, 2, {ext})"), (f"Numeral(base=16, n_min=2, n_max=2, is_extensible={ext})", f"Numeral(16, 2, 2, {ext})"),
                  (f"Numeral(n_max=IntSub(3), base=IntSub(11), is_extensible={ext})", f"Numeral(11, 1, 3, {ext})"),
                  (f"Word(IntSub(2), 3, is_extensible={ext})", f"Word(2, 3, is_extensible={ext})"), (f"Word(2, IntSub(3), is_extensible={ext})", f"Word(2, 3, is_extensible={ext})"),
                  (f"Word(max_chars=3, min_chars=2, is_extensible={ext})", f"Word(2, 3, is_extensible={ext})"),
                  (f"WordContains(StrSub('a.b'), is_extensible={ext})", f"WordContains('a.b', is_extensible={ext})"),
                  (f"WordStartsWith([StrSub('ab'), 'c'], is_extensible={ext})", f"WordStartsWith(['ab', 'c'], is_extensible={ext})"),
                  (f"WordEndsWith(StrSub('ab'), is_extensible={ext})", f"WordEndsWith('ab', is_extensible={ext})")]
    _same_value_forms(run, 'C17', pairs)
    run.merge_counts(tot)
    run.count('invalid_parameter_calls', n_inv)
    run.sample({'pattern': 'Numeral(13, 1, 3)', 'alphabet': ['0', 'c', 'C', 'd', 'g', '_'], 'candidates': 'all strings of length <= 5'})
    run.sample({'pattern': "WordContains(['a.b', 'a|b'])", 'texts': ['xa.by', 'xazby', 'a|b_', 'xa.b y']})
    n = tot['numeral_candidates'] + tot['word_texts'] + tot['affix_texts'] + tot['product_transitions']
    cov = {
        'states': tot['numeral_patterns'] + tot['word_patterns'] + tot['affix_patterns'] + tot['product_states'],
        'transitions': n, 'traces_validated_against_impl': n - tot['product_transitions'] + tot['validated'], 'evaluations': n,
        'distinct_nontrivial': tot['numeral_patterns'] + tot['word_patterns'] + tot['affix_patterns'],
        'rule': 'Numeral: all bases 2..16 x (n_min, n_max) in {0..3} x {0..3, None} (thorough: {0..5} x {0..6, None}) x is_extensible x every string of length <= n_max+2 over '
                '{a valid digit, the largest digit in both cases, the smallest invalid digit, g, _}, plus the automaton product of every extensible '
                'Numeral with a counting reference (whole language); Word: bounds x is_global x every text of length <= 6 (thorough: 8) over {a,_,1,space,-}; '
                'Word*: affix lists of 1-2 (thorough: 1-3) literal strings incl. metacharacters x u+affix+v and all single-edit neighbours',
        'exhaustive': True, 'bounds': {'bases': '2..16', 'affixes': AFFIXES},
    }
    return cov, ['word characters are [A-Za-z0-9_] in the candidate texts (is_global differences are Unicode-only)']


# ----------------------------------------------------------------------------------
# C19
# ----------------------------------------------------------------------------------
def all_formats():
    out = []
    for d in ('dd', 'd'):
        for m in ('mm', 'm'):
            for y in ('yyyy', 'yy'):
                for parts in ((d, m, y), (m, d, y), (y, m, d)):
                    for sep in ('-', '/'):
                        out.append(sep.join(parts))
    return out


def part_ok(kind, s):
    if not (s.isdigit() and s.isascii()):
        return False
    if kind in ('d', 'm'):
        return len(s) == 1 and s != '0'
    if kind == 'dd':
        return len(s) == 2 and 1 <= int(s) <= 31
    if kind == 'mm':
        return len(s) == 2 and 1 <= int(s) <= 12
    if kind == 'yy':
        return len(s) == 2
    if kind == 'yyyy':
        return len(s) == 4
    raise KeyError(kind)


def date_model(fmt, p1, s1, p2, s2, p3):
    sep = '/' if '/' in fmt else '-'
    k = fmt.split(sep)
    return s1 == sep and s2 == sep and part_ok(k[0], p1) and part_ok(k[1], p2) and part_ok(k[2], p3)


DM = ['%d' % i for i in range(10)] + ['%02d' % i for i in range(100)] + ['001', '123']
YR = ['1', '21', '00', '99', '021', '2021', '0000', '20211']


def candidates_for(fmt, thorough):
    sep = '/' if '/' in fmt else '-'
    kinds = fmt.split(sep)
    pools = [YR if k.startswith('y') else DM for k in kinds]
    if not thorough:
        pools = [pl if pl is YR else [x for x in pl if len(x) != 3 or x == '123'] for pl in pools]
    for p1 in pools[0]:
        for p2 in pools[1]:
            for p3 in pools[2]:
                yield p1, p2, p3


def _task19(arg):
    fmts, thorough = arg
    viol = []
    cnt = {'date_patterns': 0, 'date_candidates': 0, 'accepted': 0}
    for fmt in fmts:
        for ext in (False, True):
            expr = f"Date({fmt!r}{', is_extensible=True' if ext else ''})"
            try:
                p = _mk(expr)
                cre = re.compile(str(p), rx.FLAGS)
            except Exception as e:  # noqa: BLE001
                viol.append(V(f'C19|{expr}|raised:{type(e).__name__}', f"{expr} raised {type(e).__name__}: {e}",
                              f"import re\nre.compile(str({expr}), 24)"))
                continue
            cnt['date_patterns'] += 1
            bad = 0
            for p1, p2, p3 in candidates_for(fmt, thorough):
                for s1, s2 in (('-', '-'), ('/', '/'), ('-', '/'), ('/', '-')):
                    t = p1 + s1 + p2 + s2 + p3
                    cnt['date_candidates'] += 1
                    want = date_model(fmt, p1, s1, p2, s2, p3)
                    got = cre.fullmatch(t) is not None
                    cnt['accepted'] += got
                    if got != want and bad < 3:
                        bad += 1
                        viol.append(V(f'C19|{expr}|{t}', f"{expr}.is_exact_match({t!r}) is {got}, expected {want}",
                                      f"p = {expr}\nassert p.is_exact_match({t!r}) == {want}"))
            for t in ('01/02/2021', '1-2-21', '2021-12-31', '31/12/99', ''):
                try:
                    lib = p.is_exact_match(t)
                except Exception as e:  # noqa: BLE001
                    lib = 'raised ' + type(e).__name__
                if lib != (cre.fullmatch(t) is not None):
                    viol.append(V(f'C19|{expr}|exact|{t}', f"{expr}.is_exact_match({t!r}) is {lib} but re.fullmatch on the emitted pattern says {cre.fullmatch(t) is not None}",
                                  f"import re\np = {expr}\nassert p.is_exact_match({t!r}) == (re.fullmatch(str(p), {t!r}, 24) is not None)"))
    return viol, cnt


def near(fmt):
    """accepted and near-miss candidates of one format"""
    sep = '/' if '/' in fmt else '-'
    out = []
    vals = {'d': ['1', '9', '0', '10'], 'dd': ['01', '31', '32', '00', '1', '10'], 'm': ['1', '9', '0', '12'],
            'mm': ['01', '12', '13', '00', '1'], 'yy': ['21', '00', '2021', '1'], 'yyyy': ['2021', '0000', '21', '20211']}
    ks = fmt.split(sep)
    for a in vals[ks[0]]:
        for b in vals[ks[1]]:
            for c in vals[ks[2]]:
                for s in ('-', '/'):
                    out.append((a, s, b, s, c))
                out.append((a, '-', b, '/', c))
    return out


def hash_free_index(f, g):
    """a deterministic 0/1 choice per pair (no use of hash())"""
    return sum(map(ord, f + g))


def _task19_pairs(arg):
    pairs = arg
    viol = []
    cnt = {'pair_patterns': 0, 'pair_candidates': 0}
    for f, g, ext in [(f, g, e) for f, g in pairs for e in (False, True)]:
        expr = f"Date([{f!r}, {g!r}]{', is_extensible=True' if ext else ''})"
        try:
            p = _mk(expr)
            cre = re.compile(str(p), rx.FLAGS)
        except Exception as e:  # noqa: BLE001
            viol.append(V(f'C19|{expr}|raised:{type(e).__name__}', f"{expr} raised {type(e).__name__}: {e}",
                          f"import re\nre.compile(str({expr}), 24)"))
            continue
        cnt['pair_patterns'] += 1
        bad = 0
        for (a, s1, b, s2, c) in near(f) + near(g):
            t = a + s1 + b + s2 + c
            cnt['pair_candidates'] += 1
            want = date_model(f, a, s1, b, s2, c) or date_model(g, a, s1, b, s2, c)
            got = p.is_exact_match(t)
            if got != want and bad < 2:
                bad += 1
                viol.append(V(f'C19|{expr}|{t}', f"{expr}.is_exact_match({t!r}) is {got}, expected {want}",
                              f"p = {expr}\nassert p.is_exact_match({t!r}) == {want}"))
    return viol, cnt


def run_C19(run):
    thorough = run.tier == 'thorough'
    fmts = all_formats()
    documented = set(fmts)
    # the library's own list must be these 48
    tot = {}
    res = common.pmap(_task19, [([f], thorough) for f in fmts])
    pairs = [(f, g) for f in fmts for g in fmts if f != g]
    if not thorough:
        def layout(f):
            sep = '/' if '/' in f else '-'
            return sep, tuple(k[0] for k in f.split(sep))
        pairs = [pq for i, pq in enumerate(pairs) if i % 5 == 0 or layout(pq[0]) == layout(pq[1])]
    res2 = common.pmap(_task19_pairs, common.chunks(pairs, 40))
    for viol, cnt in res + res2:
        run.add(viol)
        for k, v in cnt.items():
            tot[k] = tot.get(k, 0) + v
    # formats=None == all formats; a string selects one; invalid formats
    n_none = 0
    try:
        p_none = _mk('Date()')
        cre = re.compile(str(p_none), rx.FLAGS)
    except Exception as e:  # noqa: BLE001
        run.add([V('C19|Date()|raised:' + type(e).__name__, f"Date() raised {type(e).__name__}: {e}", "import re\nre.compile(str(Date()), 24)")])
        fmts_none = []
    else:
        fmts_none = fmts
    for f in fmts_none:
        for (a, s1, b, s2, c) in near(f):
            t = a + s1 + b + s2 + c
            n_none += 1
            want = any(date_model(g, a, s1, b, s2, c) for g in fmts)
            if (cre.fullmatch(t) is not None) != want:
                run.add([V(f'C19|Date()|{t}', f"Date().is_exact_match({t!r}) is {not want}", f"assert Date().is_exact_match({t!r}) == {want}")])
    # argument forms: the empty selection, duplicates, the order of the list, the full list, and other iterables of documented formats
    n_forms = 0
    cands = [a + s1 + b + s2 + c for f in fmts[::5] for (a, s1, b, s2, c) in near(f)]
    for ext in (False, True):
        for label, expr, want_fmts in (
                ('empty', f"Date([], is_extensible={ext})", []),
                ('duplicate', f"Date(['dd/mm/yyyy', 'd-m-yy', 'dd/mm/yyyy'], is_extensible={ext})", ['dd/mm/yyyy', 'd-m-yy']),
                ('reversed', f"Date(['yyyy-mm-dd', 'd/m/yy', 'mm/dd/yyyy'][::-1], is_extensible={ext})", ['yyyy-mm-dd', 'd/m/yy', 'mm/dd/yyyy']),
                ('all-as-list', f"Date({fmts!r}, is_extensible={ext})", fmts),
                ('all-reversed', f"Date({fmts[::-1]!r}, is_extensible={ext})", fmts),
                ('triple', f"Date(['d/m/yyyy', 'd/m/yy', 'dd/mm/yyyy'], is_extensible={ext})", ['d/m/yyyy', 'd/m/yy', 'dd/mm/yyyy']),
                ('tuple', f"Date(('dd/mm/yyyy', 'd-m-yy'), is_extensible={ext})", ['dd/mm/yyyy', 'd-m-yy']),
                ('generator', f"Date((f for f in ['dd/mm/yyyy', 'd-m-yy']), is_extensible={ext})", ['dd/mm/yyyy', 'd-m-yy']),
                ('iterator', f"Date(iter(['yyyy/m/d']), is_extensible={ext})", ['yyyy/m/d']),
                ('reversed', f"Date(reversed(['yyyy/m/d', 'd-m-yy']), is_extensible={ext})", ['yyyy/m/d', 'd-m-yy']),
                ('map', f"Date(map(str.lower, ['DD/MM/YYYY', 'D-M-YY']), is_extensible={ext})", ['dd/mm/yyyy', 'd-m-yy']),
                ('filter', f"Date(filter(None, ['dd/mm/yyyy', 'd-m-yy']), is_extensible={ext})", ['dd/mm/yyyy', 'd-m-yy']),
                ('dict-keys', f"Date({{'dd/mm/yyyy': 1, 'd-m-yy': 2}}.keys(), is_extensible={ext})", ['dd/mm/yyyy', 'd-m-yy']),
                ('set', f"Date({{'dd/mm/yyyy', 'd-m-yy'}}, is_extensible={ext})", ['dd/mm/yyyy', 'd-m-yy'])):
            try:
                pf = _mk(expr)
            except Exception as e:  # noqa: BLE001
                if label in ('tuple', 'generator', 'iterator', 'set', 'reversed', 'map', 'filter', 'dict-keys') and dsl_is_lib_exc(e):
                    continue      # iterables other than a list are neither documented nor forbidden: refusing them is fine
                run.add([V(f'C19|{label}|{ext}|raised', f"{expr[:80]} raised {type(e).__name__}: {e}", f"r = {expr}")])
                continue
            nbad = 0
            for t in cands:
                n_forms += 1
                parts = re.split('([-/])', t)
                want = len(parts) == 5 and any(date_model(g, *parts) for g in want_fmts)
                try:
                    got = pf.is_exact_match(t)
                except Exception as e:  # noqa: BLE001
                    got = 'raised ' + type(e).__name__
                if got != want and nbad < 2:
                    nbad += 1
                    run.add([V(f'C19|{label}|{ext}|{t}', f"{expr[:90]}: is_exact_match({t!r}) is {got}, expected {want} (selected formats: {want_fmts[:4]}{'...' if len(want_fmts) > 4 else ''})",
                               f"p = {expr}\nassert p.is_exact_match({t!r}) == {want}")])
    run.count('argument_form_candidates', n_forms)
    n_inv = 0
    for bad in ("'dd.mm.yyyy'", "''", "'DD/MM/YYYY'", "'Dd/mm/yyyy'", "'mm/yyyy/dd'", "'dd/mm/yyy'", "'d/m/y'", "'dd/mm-yyyy'", "'dd/mm/yyyy '",
                "['dd/mm/yyyy', 'x']", "[5]", "['dd/mm/yyyy', None]", "[['dd/mm/yyyy']]", "[{}]", "[None, 'd/m/yy']", "[10, 'd/m/yy']", "[bytearray(b'd/m/yy')]", "['dd/mm/yyyy', 'D/M/YY']", "['dd/mm/yyyy', 'mm/yyyy/dd', None]", "[None, None]", "['x', 5, None]", "['dd/mm/yyyy', ['d/m/yy']]", "[('dd/mm/yyyy',)]", "5", "('dd/mm/yyyy',)", "['DD-MM-YY']", "'yyyy/dd/mm'", "'dd mm yyyy'"):
        expr = f"Date({bad})"
        n_inv += 1
        try:
            r = _mk(expr)
            got = 'returned ' + repr(str(r))[:40]
        except Exception as e:  # noqa: BLE001
            got = type(e).__name__
        if bad == "('dd/mm/yyyy',)":
            continue   # a tuple of valid formats: neither documented nor forbidden
        if got != 'InvalidArgumentValueException':
            run.add([V(f'C19|{expr}|invalid', f"{expr} -> {got}, expected InvalidArgumentValueException",
                       f"try:\n    {expr}\nexcept InvalidArgumentValueException:\n    pass\nelse:\n    raise AssertionError")])
    run.merge_counts(tot)
    run.count('none_candidates', n_none)
    run.count('invalid_format_calls', n_inv)
    if not tot.get('accepted'):
        raise common.Internal('vacuous: no candidate was accepted')
    run.sample({'format': 'dd/mm/yyyy', 'candidates': ['31/12/2021', '32/12/2021', '31-12/2021', '1/12/2021', '31/12/21']})
    n = tot['date_candidates'] + tot['pair_candidates'] + n_none
    cov = {
        'states': tot['date_patterns'] + tot['pair_patterns'] + 1, 'transitions': n, 'traces_validated_against_impl': n,
        'evaluations': n, 'distinct_nontrivial': tot['date_patterns'] + tot['pair_patterns'],
        'rule': 'all 48 formats x is_extensible x (every 1- and 2-digit string' + (' and 3-digit representatives' if thorough else '') +
                ' for day/month parts, 8 year strings of length 1..5) x 4 separator combinations incl. mixed; ' +
                ('all 2256' if thorough else 'every fifth of the 2256') + ' ordered format pairs and formats=None on accepted + near-miss candidates; invalid format arguments',
        'exhaustive': True, 'bounds': {'formats': len(fmts), 'pairs': len(pairs)},
    }
    return cov, ['a direct parser of the format string is the reference (d=1-9, dd=01-31, m=1-9, mm=01-12, yy, yyyy)']
