"""Documented default arguments: a call that relies on defaults must build the same pattern as the call that
spells the documented values out (e.g. Integer() == Integer(0, 2147483647, False, False))."""
from ..common import V
from ..env import NS

M = 2147483647
PAIRS = {
    'C15': [("Integer()", f"Integer(0, {M}, False, False)"), ("Integer(5)", f"Integer(5, {M}, False, False)"), ("Integer(include_sign=True)", f"Integer(0, {M}, True, False)"),
            ("PositiveInteger()", f"PositiveInteger(0, {M}, False)"), ("NegativeInteger()", f"NegativeInteger(0, {M}, False)"),
            ("UnsignedInteger()", f"UnsignedInteger(0, {M}, False)"), ("Integer(is_extensible=True)", f"Integer(0, {M}, False, True)"),
            ("NegativeInteger(is_extensible=True)", f"NegativeInteger(0, {M}, True)"), ("PositiveInteger(3)", f"PositiveInteger(3, {M})")],
    'C16': [("Decimal()", f"Decimal(0, {M}, 1, None, False, False)"), ("PositiveDecimal()", f"PositiveDecimal(0, {M}, 1, None, False)"),
            ("NegativeDecimal()", f"NegativeDecimal(0, {M}, 1, None, False)"), ("UnsignedDecimal()", f"UnsignedDecimal(0, {M}, 1, None, False)"),
            ("Decimal(is_extensible=True)", f"Decimal(0, {M}, 1, None, False, True)"), ("NegativeDecimal(is_extensible=True)", f"NegativeDecimal(0, {M}, 1, None, True)"),
            ("Decimal(3)", f"Decimal(3, {M}, 1, None)"), ("Decimal(max_decimal=2)", f"Decimal(0, {M}, 1, 2)"), ("PositiveDecimal(min_decimal=2)", f"PositiveDecimal(0, {M}, 2, None)"),
            ("UnsignedDecimal(end=7)", "UnsignedDecimal(0, 7, 1, None)"), ("NegativeDecimal(end=7)", "NegativeDecimal(0, 7, 1, None)")],
    'C17': [("Numeral()", "Numeral(10, 1, None, False)"), ("Numeral(16)", "Numeral(16, 1, None, False)"), ("Numeral(2, 3)", "Numeral(2, 3, None, False)"),
            ("Word()", "Word(1, None, True, False)"), ("Word(2)", "Word(2, None, True, False)"), ("Word(is_global=False)", "Word(1, None, False, False)"),
            ("WordContains('a')", "WordContains('a', True, False)"), ("WordStartsWith('a')", "WordStartsWith(['a'], True, False)"),
            ("WordEndsWith(['a', 'b'])", "WordEndsWith(['a', 'b'], True, False)")],
    'C18': [("IPv4()", "IPv4(False)"), ("IPv6()", "IPv6(False)"), ("IPv4(is_extensible=True)", "IPv4(True)")],
    'C19': [("Date()", "Date(None, False)"), ("Date('dd/mm/yyyy')", "Date(['dd/mm/yyyy'], False)"), ("Date(is_extensible=True)", "Date(None, True)")],
    'C04': [("Optional('a')", "Optional('a', True)"), ("Indefinite('a')", "Indefinite('a', True)"), ("OneOrMore('a')", "OneOrMore('a', True)"),
            ("AtLeast('a', 2)", "AtLeast('a', 2, True)"), ("AtMost('a', 2)", "AtMost('a', 2, True)"), ("AtLeastAtMost('a', 1, 2)", "AtLeastAtMost('a', 1, 2, True)"),
            ("Pregex('a').optional()", "Pregex('a').optional(True)"), ("Pregex('a').at_least_at_most(1, 2)", "Pregex('a').at_least_at_most(1, 2, True)")],
    'C08': [("Capture('a')", "Capture('a', None)"), ("Group('a')", "Group('a', False)"), ("Pregex('a').capture()", "Pregex('a').capture(None)"),
            ("Pregex('a').group()", "Pregex('a').group(False)")],
    'C01': [("Pregex('a.b')", "Pregex('a.b', True)"), ("Pregex()", "Pregex('', True)"), ("Pregex('a').concat('b')", "Pregex('a').concat('b', True)"),
            ("Pregex('a').either('b')", "Pregex('a').either('b', True)")],
    'C06': [("AnyWordChar()", "AnyWordChar(False)"), ("AnyButWordChar()", "AnyButWordChar(False)")],
}


def check(run, pid, coverage):
    pairs = PAIRS.get(pid, [])
    for a, b in pairs:
        try:
            ta, tb = str(eval(a, dict(NS))), str(eval(b, dict(NS)))
        except Exception as e:  # noqa: BLE001
            ta, tb = 'raised ' + type(e).__name__, None
        if ta != tb:
            run.add([V(f'{pid}|default|{a}', f"{a} builds {ta[:80]!r} but with the documented defaults spelled out {b} builds {str(tb)[:80]!r}",
                       f"assert str({a}) == str({b})")])
    if pairs:
        run.count('documented_default_pairs', len(pairs))
        coverage['transitions'] = coverage.get('transitions', 0) + len(pairs)
