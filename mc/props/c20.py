"""C20 - Pregex objects are immutable values; results do not depend on history, process or hash seed.

(1) operand snapshots + rebuild-from-fresh on every transition of the DSL value graph (monitors.C20)
(2) history search: all event sequences up to a depth bound over a pool of shared objects; results join
    the pool (so the documented "returns itself" shortcuts create aliases); events are builder calls,
    compile(), get_compiled_pattern(True|False) and matching calls
(3) set-order independence: class expressions under every schedule with bounded order deviations must
    give the same outcome (same denotation / same exception) as under the sorted order
(4) cross-process differential: a canonical list of expressions is rebuilt in fresh interpreters under
    distinct real PYTHONHASHSEEDs (no set-order seam); results must be equivalent
"""
import itertools
import json
import os
import re
import shutil
import tempfile

from .. import alphabet as al, common, den, dsl, explore, monitors, rx, vset
from ..common import V
from ..env import NS
from . import cls as clsmod, graph

# ----------------------------------------------------------------------------------
# (2) histories
# ----------------------------------------------------------------------------------
POOL0 = ["Either('a', 'b')", "Pregex('c')", "AnyDigit()"]
UNARY = [('optional', '{0}.optional()'), ('group', '{0}.group()'), ('groupi', '{0}.group(True)'), ('capture', '{0}.capture()'),
         ('capturen', "{0}.capture('n')"), ('start', '{0}.match_at_start()'), ('mul2', '{0} * 2'), ('exactly1', '{0}.exactly(1)'),
         ('invert', '(~{0}) if hasattr({0}, "_get_verbose_pattern") else {0}.indefinite()')]
BINARY = [('concat', '{0}.concat({1})'), ('either', '{0}.either({1})'), ('followed_by', '{0}.followed_by({1})'),
          ('enclose', '{0}.enclose({1})'), ('add', '{0} + {1}'), ('concat_empty', '{0}.concat(Pregex())'),
          ('Either', 'Either({0}, {1})'), ('Concat', 'Concat({0}, {1}, {0})'), ('Enclose', 'Enclose({0}, {1})'), ('FollowedBy', 'FollowedBy({0}, {1})'),
          ('or', '({0} | {1}) if hasattr({0}, "_get_verbose_pattern") and hasattr({1}, "_get_verbose_pattern") else {0}.concat({1}, on_right=False)')]
STATEFUL = [('compile', '{0}.compile()'), ('gcp_keep', '{0}.get_compiled_pattern(False)'), ('gcp_discard', '{0}.get_compiled_pattern(True)'),
            ('has_match', "{0}.has_match('ab1c')"), ('get_matches', "{0}.get_matches('ab1c')"), ('replace', "{0}.replace('ab1c', 'X')"),
            ('captures', "{0}.get_captures_and_pos('ab1c')"),
            ('file', "{0}.get_matches(__import__('mc.props.c20', fromlist=['x']).sample_file(), is_path=True)")]
_SAMPLE = None


def sample_file():
    """a small UTF-8 file with fixed content (created atomically on demand in the temp dir)"""
    global _SAMPLE
    content = 'ab1c\nca ab'
    if _SAMPLE is None or not os.path.exists(_SAMPLE):
        path = os.path.join(tempfile.gettempdir(), 'mc_c20_sample_ab1c.txt')
        try:
            okay = open(path, encoding='utf-8').read() == content
        except OSError:
            okay = False
        if not okay:
            tmp = path + '.%d' % os.getpid()
            with open(tmp, 'w', encoding='utf-8') as fh:
                fh.write(content)
            os.replace(tmp, path)
        _SAMPLE = path
    return _SAMPLE


TEXTS = ['', 'a', 'b', 'c', 'ab', 'ca', '1', 'a1', 'cab', 'AB', 'aa', 'bc1', 'cc']


CLS_UNARY = [('invert', '(~{0}) if hasattr({0}, "_get_verbose_pattern") else {0}.optional()'), ('minus_z', "({0} - 'z') if hasattr({0}, \"_get_verbose_pattern\") else {0}.group()"),
             ('or_q', "({0} | 'q') if hasattr({0}, \"_get_verbose_pattern\") else {0}.capture()")]
CLS_BINARY = [('or', '({0} | {1}) if hasattr({0}, "_get_verbose_pattern") else {0}.concat({1})'),
              ('sub', '({0} - {1}) if hasattr({0}, "_get_verbose_pattern") else {0}.either({1})'),
              ('rsub', '({1} - {0}) if hasattr({1}, "_get_verbose_pattern") else {0}.enclose({1})')]


def events(n_pool, reduced):
    if reduced == 'cls':
        ev = []
        for i in range(n_pool):
            for name, t in CLS_UNARY:
                ev.append(('u', name, t, (i,)))
            for j in range(n_pool):
                for name, t in CLS_BINARY:
                    ev.append(('b', name, t, (i, j)))
        return ev
    ev = []
    un = UNARY[:5] if reduced else UNARY
    bi = (BINARY[:2] + BINARY[6:8]) if reduced else BINARY
    st = (STATEFUL[:3] + STATEFUL[-1:]) if reduced else STATEFUL
    for i in range(n_pool):
        for name, t in un:
            ev.append(('u', name, t, (i,)))
        for name, t in st:
            ev.append(('s', name, t, (i,)))
        for j in range(n_pool):
            for name, t in bi:
                if name == 'concat_empty' and j != 0:
                    continue
                ev.append(('b', name, t, (i, j)))
    return ev


def behaviour(o):
    out = []
    try:
        out.append(o.get_matches_and_pos(sample_file(), is_path=True))
        out.append(o.split_by_match(sample_file(), is_path=True))
    except Exception as e:  # noqa: BLE001
        out.append(('raise', type(e).__name__))
    for t in TEXTS:
        try:
            out.append((o.get_matches_and_pos(t), o.is_exact_match(t)))
        except Exception as e:  # noqa: BLE001
            out.append(('raise', type(e).__name__))
    return out


def value_sig(o):
    s = (str(o), o._get_type(), o._is_repeatable())
    if hasattr(o, '_get_verbose_pattern'):
        s += (o._get_verbose_pattern(),)
    return s


def run_history(hist, viol, cnt, pool0=None):
    """hist: tuple of event descriptors.  Executes it on a pool of shared objects, checking after every event."""
    ns = dict(NS)
    pool0 = pool0 or POOL0
    pool = [eval(e, ns) for e in pool0]
    exprs = list(pool0)
    sigs = [value_sig(o) for o in pool]
    steps = []
    for kind, name, tmpl, idx in hist:
        if max(idx) >= len(pool):
            return False
        for k, i in enumerate(idx):
            ns['_p%d' % k] = pool[i]
        src = tmpl.format(*['_p%d' % k for k in range(len(idx))])
        esrc = tmpl.format(*['(' + exprs[i] + ')' for i in idx])
        steps.append(esrc)
        try:
            r = eval(src, ns)
        except Exception as e:  # noqa: BLE001
            r = e
        cnt['events'] += 1
        if kind in ('u', 'b') and isinstance(r, NS['Pregex']):
            pool.append(r)
            exprs.append(esrc)
            sigs.append(value_sig(r))
        # every pool object is observationally unchanged ...
        for i, o in enumerate(pool):
            cnt['object_checks'] += 1
            if value_sig(o) != sigs[i]:
                viol.append(V('C20|history|' + ' ; '.join(steps) + '|object%d-changed' % i,
                              f"after [{' ; '.join(steps)}] the value built by {exprs[i]} changed from {sigs[i][0]!r} to {str(o)!r}",
                              _hist_code(hist, i, pool0)))
                return True
        # ... and equals the same expression rebuilt from fresh sub-objects (also in behaviour)
        last = len(pool) - 1
        for i in {last, idx[0]}:
            try:
                fresh = eval(exprs[i], dict(NS))
                same = value_sig(fresh) == value_sig(pool[i]) and behaviour(fresh) == behaviour(pool[i])
            except Exception as e:  # noqa: BLE001
                same = isinstance(r, Exception) and i == last
            cnt['rebuild_checks'] += 1
            if not same:
                viol.append(V('C20|history|' + ' ; '.join(steps) + '|history-dependent',
                              f"after [{' ; '.join(steps)}] the value of {exprs[i]} ({str(pool[i])!r}) differs from the same expression built from fresh objects",
                              _hist_code(hist, i, pool0)))
                return True
    return True


def _hist_code(hist, i, pool0=None):
    pool0 = pool0 or POOL0
    lines = ['pool = [%s]' % ', '.join(pool0), 'exprs = %r' % (list(pool0),)]
    for kind, name, tmpl, idx in hist:
        src = tmpl.format(*['pool[%d]' % k for k in idx])
        lines.append('try:\n    r = ' + src + '\nexcept Exception as e:\n    r = e')
        if kind in ('u', 'b'):
            lines.append('if isinstance(r, Pregex):\n    pool.append(r); exprs.append(%r.format(*["(" + exprs[k] + ")" for k in %r]))' % (tmpl, list(idx)))
    lines.append('from mc.props.c20 import value_sig, behaviour')
    lines.append('for o, e in zip(pool, exprs):\n    f = eval(e)\n    assert value_sig(f) == value_sig(o) and behaviour(f) == behaviour(o), (e, str(o), str(f))')
    return '\n'.join(lines)


def _task_hist(arg):
    prefixes, depth, reduced_from, pool0 = arg
    dsl.setup_worker()
    viol = []
    cnt = {'histories': 0, 'events': 0, 'object_checks': 0, 'rebuild_checks': 0}
    for first in prefixes:
        stack = [(first,)]
        while stack:
            h = stack.pop()
            cnt['histories'] += 1
            if not run_history(h, viol, cnt, pool0):
                continue
            if len(h) < depth:
                n_next = len(pool0) + sum(1 for e in h if e[0] in ('u', 'b'))
                for e in events(n_next, 'cls' if pool0 is CLS_POOL or list(pool0) == CLS_POOL else (len(h) >= reduced_from)):
                    stack.append(h + (e,))
        if len(viol) > 50:
            break
    return viol, cnt


def run_histories(run):
    """quick: all histories of length <= 2 over the full event menu and a pool of 3, all histories of length <= 3 over the
    reduced menu and a pool of 2, class pool to length 2; thorough: length <= 3 over a pool of 3 (full menu for the first two
    events, reduced for the third), the reduced pool-of-2 plan, class pool to length 3"""
    if run.tier == 'quick':
        plans = [(POOL0, 2, 99, False), (POOL0[:2], 3, 0, True), (CLS_POOL, 2, 0, 'cls')]
    else:
        plans = [(POOL0, 3, 2, False), (POOL0[:2], 3, 0, True), (CLS_POOL, 3, 0, 'cls')]
    tot = {}
    desc = []
    for pool0, depth, reduced_from, red_first in plans:
        firsts = events(len(pool0), red_first)
        desc.append(f"length <= {depth}, pool of {len(pool0)}, {len(firsts)} first events ({'reduced' if red_first else 'full'} menu)")
        for viol, cnt in common.pmap(_task_hist, [([f], depth, reduced_from, pool0) for f in firsts]):
            run.add(viol)
            for k, v in cnt.items():
                tot[k] = tot.get(k, 0) + v
    return tot, '; '.join(desc)


# ----------------------------------------------------------------------------------
# (3) set-order independence
# ----------------------------------------------------------------------------------
ORDER_EXTRA = ["AnyFrom('b', 'e', 'x', '!', '#', 'Z') - AnyBetween('a', 'f')", "AnyFrom('a', 'c', 'e', 'g', 'i') - AnyFrom('c', 'g')",
               "AnyFrom('a', 'b', 'c', 'd', 'x') | AnyFrom('e', 'z', 'y')", "AnyFrom('z', 'a', 'm', '-', ']', '\\\\') - AnyBetween('a', 'm')",
               "AnyLetter() | AnyFrom('[', ']', '^', '-', '\\\\')", "AnyPunctuation() - AnyFrom('[', '\\\\', ']')",
               "AnyWordChar() - AnyFrom('C', 'c', 'G', 'g', '3')", "~AnyFrom(']', 'a', '^', '-')", "AnyFrom('q', 'r', 's', 'u', 'v') - AnyBetween('r', 'u')",
               "AnyButFrom('a', 'b', 'd', 'e') | AnyButFrom('c')", "AnyFrom('0', '2', '4', '6', '8') - AnyBetween('1', '5')",
               "AnyFrom('A', 'b', 'C', 'd', '1', '_') - AnyLowercaseLetter()", "AnyWhitespace() - Newline()", "AnyFrom('a', 'b') | AnyFrom('c', 'd') | AnyFrom('e', 'f')"]


def outcome_sig(kind, val):
    if kind == 'raise':
        return ('raise', type(val).__name__)
    try:
        d, m = den.of_text(str(val))
        return ('den', d, m)
    except (re.error, ValueError, rx.Unparsable):
        return ('text', str(val))


def _task_order(arg):
    exprs, dev, full = arg
    viol = []
    cnt = {'order_cases': 0, 'order_schedules': 0}
    for expr in exprs:
        kind, val, sched = clsmod.outcome_of(expr)
        base = outcome_sig(kind, val)
        cnt['order_cases'] += 1
        singles = [(i, a) for i, n in enumerate(sched.points) for a in vset.alternatives(n, full)]
        runs = [dict([s]) for s in singles]
        if dev >= 2:
            runs += [{i: a, j: b} for (i, a), (j, b) in itertools.combinations(singles, 2) if i != j]
        for ch in runs:
            k2, v2, _ = clsmod.outcome_of(expr, ch)
            cnt['order_schedules'] += 1
            if outcome_sig(k2, v2) != base:
                viol.append(V(f'C20|order|{expr}', f"{expr} gives {str(val) if kind == 'ok' else type(val).__name__!r} under the sorted set order "
                              f"but {str(v2) if k2 == 'ok' else type(v2).__name__!r} under {ch}",
                              'OUT = __import__("mc.props.c20", fromlist=["x"]).sig_of(%r)' % expr, order_dependent=True, schedule=repr(ch),
                              value_code='from mc.props.c20 import sig_of\nOUT = sig_of(%r)' % expr))
                break
    return viol, cnt


def sig_of(expr):
    """canonical outcome of an expression in the current interpreter: exception name, class denotation, or parse tree"""
    try:
        r = eval(expr, dict(NS))
    except Exception as e:  # noqa: BLE001
        return ('raise', type(e).__name__)
    text = str(r)
    if hasattr(r, '_get_verbose_pattern'):
        try:
            return ('den',) + den.of_text(text)
        except (re.error, ValueError, rx.Unparsable):
            return ('text', text)
    try:
        return ('tree', rx.parse(text).tree)
    except re.error:
        return ('text', text)


def run_orders(run):
    thorough = run.tier == 'thorough'
    reg, neg, other, core = clsmod.c07_atoms(run.tier)
    core_cls = [c for c in core if not c.startswith(("'", 'Newline', 'Backslash'))]
    exprs = [f"({a}) {op} ({b})" for a in core_cls for b in core_cls for op in '|-'] + [f"~({c})" for c in reg + neg] + ORDER_EXTRA
    exprs += [f"AnyFrom({a!r}, {b!r}, {c!r})" for a, b, c in itertools.permutations(['\\', ']', '[', '^', '-', 'a'], 3)]
    iv = ["AnyBetween('a', 'm')", "AnyBetween('c', 'e')", "AnyBetween('k', 'z')", "AnyBetween('a', 'c')", "AnyBetween('e', 'g')", "AnyBetween('b', 'k')",
          "AnyFrom('d')", "AnyFrom('a', 'z')", "AnyBetween('n', 'p')"]
    for a, b, c in itertools.product(iv, repeat=3):
        if len({a, b, c}) == 3:
            exprs.append(f"({a}) | (({b}) | ({c}))")
            if thorough or (iv.index(a) + iv.index(b) + iv.index(c)) % 3 == 0:
                exprs.append(f"(({a}) | ({b})) | ({c})")
                exprs.append(f"(({a}) | ({b})) - ({c})")
    tot = {}
    for viol, cnt in common.pmap(_task_order, [(c, 2 if thorough else 1, thorough) for c in common.chunks(exprs, 40)]):
        run.add(viol)
        for k, v in cnt.items():
            tot[k] = tot.get(k, 0) + v
    return tot


# ----------------------------------------------------------------------------------
# (4) cross-process differential
# ----------------------------------------------------------------------------------
_XP_CODE = r'''
import json, sys
sys.setrecursionlimit(1000)
from mc.env import NS
exprs = json.load(open(sys.argv[1]))
out = []
for e in exprs:
    try:
        r = eval(e, dict(NS))
        out.append(str(r))
    except BaseException as ex:
        out.append('!' + type(ex).__name__)
print(json.dumps(out))
'''


def canonical_exprs(run):
    n = 20000 if run.tier == 'thorough' else 6000
    atoms = al.core_atoms()
    L = explore.Level
    res = explore.run(dsl.safe_atoms(atoms, run),
                      [L(dsl.core_quantifier_ops() + dsl.group_ops() + dsl.anchor_ops(), dsl.binary_ops(), al.small_atoms(), (0, 1), 'd1'),
                       L([], [], [], (0,), 'collect')], [], nested_tail=False)
    exprs = [e for e, _ in atoms] + sorted(d[0] for d in res['frontier'].values())
    step = max(1, len(exprs) // (n // 2))
    exprs = exprs[::step]
    reg, neg, other, core = clsmod.c07_atoms(run.tier)
    cls = [f"({a}) {op} ({b})" for a in core for b in core for op in '|-' if a.startswith('Any') or b.startswith('Any')]
    cls += [f"~({c})" for c in reg + neg] + ORDER_EXTRA + reg + neg
    cls += [f"AnyFrom({a!r}, {b!r}, {c!r})" for a, b, c in itertools.permutations(['\\', ']', '[', '^', '-', 'a', '$'], 3)]
    lits = ['Pregex(%r)' % s for s in al.all_literals()[::3]]
    from . import hd
    meta = []
    for pid in ('C15', 'C16', 'C17', 'C18', 'C19', 'C10'):
        e = hd.exprs_for(pid, run.tier)
        meta += e[:: max(1, len(e) // 400)]
    meta += ["Date(['d/m/yy', 'd/m/yyyy'], is_extensible=True)", "Date(['dd-mm-yyyy', 'd-m-yy', 'mm/dd/yy'])", "Email()", "HttpUrl()",
             "Email(True, True)", "WordContains(['ab', 'a', 'b'])", "WordStartsWith(['x', 'xy', 'y'])", "IPv4()", "IPv6()"]
    # large calls: any de-duplication or batching through a set / dict shows up as a seed-dependent order
    words = ['alpha', 'beta', 'gamma', 'delta', 'eps', 'zeta', 'eta', 'theta', 'iota', 'kappa', 'lam', 'mu', 'nu', 'xi', 'omi', 'pi', 'rho', 'sigma', 'tau', 'ups']
    big = []
    for n_ in (9, 10, 11, 12, 16, 17, 20):
        w = words[:n_]
        big += [f"Either(*{w!r})", f"Concat(*{w!r})", f"Either(*{[x[0] for x in w]!r})", f"WordContains({w!r})", f"WordStartsWith({w!r}, is_extensible=True)",
                f"AnyFrom(*{[chr(0x61 + 2 * i) for i in range(n_)]!r})", f"AnyButFrom(*{[chr(0x3b1 + i) for i in range(n_)]!r})",
                f"FollowedBy('x', *{w!r})", f"NotEnclosedBy('x', *{[x[:2] for x in w]!r})", f"Enclose('x', *{w!r})"]
    # repeated arguments (a de-duplicating shortcut is exactly where a set sneaks in)
    for n_ in (3, 4, 11, 17):
        w = words[:n_]
        d = w + [w[1], w[0], w[1]]
        big += [f"Either(*{d!r})", f"WordContains({d!r})", f"WordEndsWith({d!r}, is_extensible=True)", f"AnyFrom(*{[x[0] for x in d]!r})", f"FollowedBy('x', *{d!r})", f"Concat(*{d!r})"]
    big += ["Date(['d/m/yy', 'd/m/yyyy', 'd/m/yy'], is_extensible=True)", "Date(['d/m/yyyy', 'd/m/yy', 'd/m/yyyy', 'dd/mm/yy', 'd/m/yy'], is_extensible=True)",
            "Date(['mm-dd-yy', 'mm-d-yyyy', 'mm-dd-yyyy', 'm-d-yy', 'mm-dd-yy'])", "Date(['yyyy/m/d'] * 3 + ['yy/m/d'] * 2, is_extensible=True)"]
    from .lang import all_formats
    f48 = all_formats()
    big += [f"Date({f48[:n_]!r}, is_extensible=True)" for n_ in (3, 10, 16, 17, 33, 48)] + [f"Date({f48[::-1][:n_]!r})" for n_ in (5, 17, 48)]
    return exprs + cls + lits + meta + big


def equivalent_texts(a, b):
    if a == b:
        return True
    if a.startswith('!') or b.startswith('!'):
        return False
    try:
        return rx.parse(a).tree == rx.parse(b).tree
    except re.error:
        return False


def run_crossprocess(run):
    exprs = canonical_exprs(run)
    k = 16 if run.tier == 'thorough' else 4
    seeds = [1000 + 16 * run.seed + i for i in range(k)]
    td = tempfile.mkdtemp(prefix='c20_')
    try:
        path = os.path.join(td, 'exprs.json')
        json.dump(exprs, open(path, 'w'))

        def one(seed):
            e = dict(os.environ, PYTHONHASHSEED=str(seed), PREGEX_VERIF_VSET='0', PYTHONPATH=common.VERIF,
                     PYTHONWARNINGS='ignore', PYTHONDONTWRITEBYTECODE='1')
            import subprocess
            import sys
            r = subprocess.run([sys.executable, '-c', _XP_CODE, path], capture_output=True, text=True, env=e, cwd=common.VERIF, timeout=3000)
            if r.returncode != 0:
                raise common.Internal('cross-process child failed: ' + r.stderr[-600:])
            return json.loads(r.stdout.strip().splitlines()[-1])
        from concurrent.futures import ThreadPoolExecutor
        with ThreadPoolExecutor(8) as ex:
            outs = list(ex.map(one, seeds))
    finally:
        shutil.rmtree(td, ignore_errors=True)
    n = 0
    for j, e in enumerate(exprs):
        for seed, out in zip(seeds[1:], outs[1:]):
            n += 1
            if not equivalent_texts(outs[0][j], out[j]):
                run.add([V(f'C20|process|{e}', f"{e} is {outs[0][j]!r} under PYTHONHASHSEED={seeds[0]} but {out[j]!r} under PYTHONHASHSEED={seed}",
                           'from mc.props.c20 import sig_of\nOUT = sig_of(%r)' % e, order_dependent=True,
                           value_code='from mc.props.c20 import sig_of\nOUT = sig_of(%r)' % e)])
                break
    return {'xp_expressions': len(exprs), 'xp_processes': k, 'xp_comparisons': n, 'xp_seeds': seeds}


def _task_compile_diff(exprs):
    """behaviour before compile() == after compile() == after get_compiled_pattern(True) again, on all texts of length <= 2
    over the pattern's own alphabet"""
    viol, n = [], 0
    for e in exprs:
        try:
            p = eval(e, dict(NS))
            text = str(p)
            tree = rx.parse(text)
        except Exception:  # noqa: BLE001
            continue
        if tree.inctx:
            continue
        sigma = rx.alphabet([tree.tree], limit=5)
        ts = [''] + list(sigma) + [a + b for a in sigma for b in sigma]

        def beh(o):
            out = []
            for t in ts:
                try:
                    out.append((o.get_matches_and_pos(t), o.is_exact_match(t), o.has_match(t), o.replace(t, '-', 1), o.split_by_match(t),
                                o.get_captures(t)))
                except Exception as ex:  # noqa: BLE001
                    out.append(type(ex).__name__)
            return out
        b0 = beh(p)
        p.compile()
        b1 = beh(p)
        p.get_compiled_pattern(True)
        b2 = beh(p)
        n += 3 * len(ts)
        if not (b0 == b1 == b2):
            k = next(i for i in range(len(ts)) if not (b0[i] == b1[i] == b2[i]))
            viol.append(V(f'C20|compile|{e}', f"{e}: behaviour on {ts[k]!r} before compile() {b0[k]!r}, after {b1[k]!r}, after discarding {b2[k]!r}",
                          f"p = {e}\nt = {ts[k]!r}\ndef beh(o):\n    return (o.get_matches_and_pos(t), o.is_exact_match(t), o.has_match(t), o.replace(t, '-', 1), o.split_by_match(t), o.get_captures(t))\n"
                          f"a = beh(p)\np.compile()\nb = beh(p)\np.get_compiled_pattern(True)\nc = beh(p)\nassert a == b == c, (a, b, c)"))
    return viol, n


def run_compile_diff(run):
    exprs = [e for e in canonical_exprs(run) if not e.startswith(('AnyFrom(', '(Any', '~(', 'Any'))]
    exprs += ["Pregex(\"\\\\'\")", "Backslash() + \"'\"", "Pregex('\\t')", "Pregex('a\\tb')", "Optional('\\r')", "AnyFrom('\\t')", "Pregex('\\x0b\\x0c')",
              "Pregex('\\n')", "Pregex('\\x00')", "Pregex('\\x85')", "Pregex('\\u2028')", "Pregex('\"')", "Pregex('\\\\\"')", "Pregex(\"'\\\\\")",
              "AnyFrom('\\\\', \"'\")", "Pregex('é')", "Pregex('\\ud800')", "Pregex('\\U0001f600')", "Pregex(' ')", "Pregex('\\x7f')", "Pregex('\\x1b[0m')"]
    tot = 0
    for viol, n in common.pmap(_task_compile_diff, common.chunks(exprs, 100)):
        run.add(viol)
        tot += n
    return {'compile_diff_expressions': len(exprs), 'compile_diff_observations': tot}


CLS_POOL = ["AnyFrom('a', 'z', '5')", "AnyBetween('a', 'c')", "Pregex('z')"]


def run_C20(run):
    cov, assumptions = graph._run(run, [monitors.C20()], shallow=True)
    cd = run_compile_diff(run)
    run.merge_counts(cd)
    cov['transitions'] += cd['compile_diff_observations']
    cov['traces_validated_against_impl'] += cd['compile_diff_observations']
    h, depth = run_histories(run)
    o = run_orders(run)
    x = run_crossprocess(run)
    run.merge_counts({k: v for k, v in {**h, **o, **x}.items() if isinstance(v, int)})
    cov['transitions'] += h['events'] + o['order_schedules'] + x['xp_comparisons']
    cov['states'] += h['histories'] + o['order_cases'] + x['xp_expressions']
    cov['traces_validated_against_impl'] += h['events'] + o['order_schedules'] + x['xp_comparisons']
    cov['evaluations'] += h['events'] + o['order_schedules'] + x['xp_comparisons']
    cov['rule'] += (f" || histories: every event sequence [{depth}] over a pool of shared objects (results join the pool); "
                    f"after every event each pool object must be unchanged and equal (text, type, matches on "
                    f"{len(TEXTS)} texts) to its expression rebuilt from fresh objects || set orders: class expressions under every schedule with "
                    f"bounded deviations || cross-process: {x['xp_expressions']} expressions rebuilt under PYTHONHASHSEEDs {x['xp_seeds']}")
    cov['samples'] = cov['samples'][:6] + [{'history': ["pool[0].group(True)", "pool[0].concat(pool[1])", "pool[3].compile()"]},
                                            {'order_case': ORDER_EXTRA[0]}]
    return cov, assumptions + ['real hash seeds of the cross-process differential are a listed finite set; the set-order exploration covers the rest']
