"""The meta patterns (C15-C19) are ordinary Pregex values: what the property says about the texts they match must hold through
every way of asking - has_match / is_exact_match / get_matches, on a plain or a compiled instance, on a string or on a file.
For a handful of instances per property and a handful of texts this sweeps the full product and compares with `re` on the
emitted pattern (whose language is what the property's own engine decides)."""
import os
import re
import tempfile

from .. import rx
from ..common import V
from ..env import NS

EXPRS = {
    'C15': ["Integer()", "Integer(5, 123)", "PositiveInteger(1, 20)", "NegativeInteger(3, 40)", "UnsignedInteger(0, 9)",
            "Integer(10, 20, is_extensible=True)", "Integer(1, 5, include_sign=True)"],
    'C16': ["Decimal()", "Decimal(0, 9, 1, 2)", "PositiveDecimal(1, 20, 2, 2)", "NegativeDecimal(0, 5, 1, None)", "UnsignedDecimal(0, 5, 1, 3)",
            "UnsignedDecimal(0, 5, 1, 3, is_extensible=True)"],
    'C17': ["Numeral()", "Numeral(2, 1, 3)", "Numeral(16, 2, 2)", "Word()", "Word(2, 3)", "WordContains('ab')", "WordStartsWith(['a', 'b'])",
            "WordEndsWith('ab', is_extensible=True)", "Numeral(8, 1, 2, is_extensible=True)"],
    'C18': ["IPv4()", "IPv6()", "IPv4(is_extensible=True)", "IPv6(is_extensible=True)"],
    'C19': ["Date()", "Date('dd/mm/yyyy')", "Date(['d/m/yy', 'yyyy-mm-dd'])", "Date('d-m-yy', is_extensible=True)", "Date(is_extensible=True)"],
}
TEXTS = {
    'C15': ['5', '17', '+3', '-12', 'a 19 b', '007', '123', '12 -7 +30\n4', '', '20', 'x15', '1.5'],
    'C16': ['1.5', '0.25', '+3.50', '-1.5', 'a 2.75 b', '1.', '.5', '10.123', '', '5.1 and 4.25\n3.333'],
    'C17': ['ab', 'a', '101', 'ff', 'abc ab ba', 'xaby', '17', '', 'ab\nba', 'AB_1', 'ab1'],
    'C18': ['1.2.3.4', '192.168.1.10', '256.1.1.1', '::1', '1:2:3:4:5:6:7:8', 'ip 10.0.0.1 and fe80::1\n', '', '1.2.3', '0.0.0.10', '1::'],
    'C19': ['24/11/2001', '1/2/21', '2021-12-31', 'on 3-4-99 and 31/12/1999\n', '', '32/13/2001', '2001-7-3', '24/11/2001\n'],
}


def _model(cre, t):
    ms = list(cre.finditer(t))
    return {'has_match': bool(cre.search(t)), 'is_exact_match': bool(cre.fullmatch(t)), 'get_matches': [m.group(0) for m in ms],
            'get_matches_and_pos': [(m.group(0), m.start(), m.end()) for m in ms]}


def check(run, pid, coverage):
    if pid not in EXPRS:
        return
    n = 0
    td = tempfile.mkdtemp(prefix='apistate_')
    path = os.path.join(td, 'f.txt')
    for expr in EXPRS[pid]:
        try:
            p, pc = eval(expr, dict(NS)), eval(expr, dict(NS))
            pc.compile()
            cre = re.compile(str(p), rx.FLAGS)
        except Exception:  # noqa: BLE001
            continue           # whether the instance can be built is the property's own engine's question
        bad = set()
        for t in TEXTS[pid]:
            with open(path, 'w', encoding='utf-8', newline='') as fh:
                fh.write(t)
            want = _model(cre, t)
            for state, inst in (('plain', p), ('compiled', pc)):
                for src, arg, kw in (('text', t, {}), ('file', path, {'is_path': True})):
                    for meth, w in want.items():
                        n += 1
                        try:
                            got = getattr(inst, meth)(arg, **kw)
                        except Exception as e:  # noqa: BLE001
                            got = 'raised ' + type(e).__name__
                        if got != w and (state, src, meth) not in bad:
                            bad.add((state, src, meth))
                            setup = f"p = {expr}\n" + ('p.compile()\n' if state == 'compiled' else '')
                            if src == 'file':
                                code = (setup + "import tempfile, os\nf = os.path.join(tempfile.mkdtemp(), 'f.txt')\n"
                                        f"open(f, 'w', encoding='utf-8', newline='').write({t!r})\nassert p.{meth}(f, is_path=True) == {w!r}")
                            else:
                                code = setup + f"assert p.{meth}({t!r}) == {w!r}"
                            run.add([V(f'{pid}|apistate|{expr}|{state}|{src}|{meth}',
                                       f"{expr} ({state} instance, {src} source): {meth} on {t!r} = {got!r}, re on the emitted pattern gives {w!r}", code)])
    import shutil
    shutil.rmtree(td, ignore_errors=True)
    run.count('api_state_observations', n)
    coverage['transitions'] = coverage.get('transitions', 0) + n
    coverage['traces_validated_against_impl'] = coverage.get('traces_validated_against_impl', 0) + n
    coverage['rule'] = coverage.get('rule', '') + (
        f' || API-state sweep: {len(EXPRS[pid])} instances x {len(TEXTS[pid])} texts x (plain, compiled) x (string, file) x 4 matching methods against re on the emitted pattern')
