"""C03 (and the spelling clauses of C02/C04): every public callable gives the same result when its arguments are passed by position,
by their documented names, by name in reverse order, or partly by position and partly by name - for each split point.
The parameter names are written down from the documentation (not read from the code at run time), so a renamed or
mis-forwarded keyword is observed."""
import contextlib
import io
import itertools

from .. import common, dsl
from ..common import V
from ..env import NS

R = "(Capture('a', 'x') + Optional(Capture('b')))"
SRC = ["'ab a'", "''"]
B = ['True', 'False']
P = ["'a'", "Either('a', 'b')", "AnyDigit()"]

# (callable prefix, [documented parameter names], [domains per parameter])
TABLE = [
    ('Pregex', ['pattern', 'escape'], [["'a.b'", "'a|b'"], B]),
    ('Optional', ['pre', 'is_greedy'], [P, B]), ('Indefinite', ['pre', 'is_greedy'], [P, B]), ('OneOrMore', ['pre', 'is_greedy'], [P, B]),
    ('Exactly', ['pre', 'n'], [P, ['0', '1', '3']]), ('AtLeast', ['pre', 'n', 'is_greedy'], [P, ['0', '2'], B]),
    ('AtMost', ['pre', 'n', 'is_greedy'], [P, ['None', '1', '2'], B]), ('AtLeastAtMost', ['pre', 'n', 'm', 'is_greedy'], [P, ['0', '1'], ['None', '1', '3'], B]),
    ('Capture', ['pre', 'name'], [P, ['None', "'g'"]]), ('Group', ['pre', 'is_case_insensitive'], [P, B]),
    ('Backreference', ['ref'], [['1', "'n'"]]), ('Conditional', ['name', 'pre1', 'pre2'], [["'n'"], P, ['None', "'c'", "Either('c', 'dd')"]]),
    ('MatchAtStart', ['pre'], [P]), ('MatchAtEnd', ['pre'], [P]), ('MatchAtLineStart', ['pre'], [P]), ('MatchAtLineEnd', ['pre'], [P]),
    ('AnyBetween', ['start', 'end'], [["'a'", "'$'"], ["'z'", "'~'"]]), ('AnyButBetween', ['start', 'end'], [["'a'", "'-'"], ["'z'"]]),
    ('AnyWordChar', ['is_global'], [B]), ('AnyButWordChar', ['is_global'], [B]),
    ('Integer', ['start', 'end', 'include_sign', 'is_extensible'], [['0', '5'], ['9', '123'], B, B]),
    ('PositiveInteger', ['start', 'end', 'is_extensible'], [['0', '5'], ['9', '123'], B]),
    ('NegativeInteger', ['start', 'end', 'is_extensible'], [['0', '5'], ['9', '123'], B]),
    ('UnsignedInteger', ['start', 'end', 'is_extensible'], [['0', '5'], ['9', '123'], B]),
    ('Decimal', ['start', 'end', 'min_decimal', 'max_decimal', 'include_sign', 'is_extensible'], [['0', '5'], ['9'], ['1', '2'], ['None', '2'], B, B]),
    ('PositiveDecimal', ['start', 'end', 'min_decimal', 'max_decimal', 'is_extensible'], [['0', '5'], ['9'], ['1', '2'], ['None', '2'], B]),
    ('NegativeDecimal', ['start', 'end', 'min_decimal', 'max_decimal', 'is_extensible'], [['0', '5'], ['9'], ['1', '2'], ['None', '2'], B]),
    ('UnsignedDecimal', ['start', 'end', 'min_decimal', 'max_decimal', 'is_extensible'], [['0', '5'], ['9'], ['1', '2'], ['None', '2'], B]),
    ('Numeral', ['base', 'n_min', 'n_max', 'is_extensible'], [['2', '16'], ['0', '2'], ['None', '3'], B]),
    ('Word', ['min_chars', 'max_chars', 'is_global', 'is_extensible'], [['1', '2'], ['None', '3'], B, B]),
    ('WordContains', ['infix', 'is_global', 'is_extensible'], [["'ab'", "['a', 'b.c']"], B, B]),
    ('WordStartsWith', ['prefix', 'is_global', 'is_extensible'], [["'ab'", "['a', 'b.c']"], B, B]),
    ('WordEndsWith', ['suffix', 'is_global', 'is_extensible'], [["'ab'", "['a', 'b.c']"], B, B]),
    ('Date', ['formats', 'is_extensible'], [['None', "'dd/mm/yyyy'", "['d-m-yy', 'yyyy/mm/dd']"], B]),
    ('IPv4', ['is_extensible'], [B]), ('IPv6', ['is_extensible'], [B]),
    ('Email', ['capture_local_part', 'capture_domain', 'is_extensible'], [B, B, B]), ('HttpUrl', ['capture_domain', 'is_extensible'], [B, B]),
    ('Text', ['is_optional'], [B]), ('Whitespace', ['is_optional'], [B]), ('NonWhitespace', ['is_optional'], [B]),
    ("Pregex('ab').optional", ['is_greedy'], [B]), ("Pregex('ab').indefinite", ['is_greedy'], [B]), ("Pregex('ab').one_or_more", ['is_greedy'], [B]),
    ("Pregex('ab').exactly", ['n'], [['0', '2']]), ("Pregex('ab').at_least", ['n', 'is_greedy'], [['0', '2'], B]),
    ("Pregex('ab').at_most", ['n', 'is_greedy'], [['None', '2'], B]), ("Pregex('ab').at_least_at_most", ['n', 'm', 'is_greedy'], [['0', '1'], ['None', '2'], B]),
    ("Either('a', 'b').concat", ['pre', 'on_right'], [P, B]), ("Either('a', 'b').either", ['pre', 'on_right'], [P, B]),
    ("Either('a', 'b').enclose", ['pre'], [P]), ("Pregex('ab').capture", ['name'], [['None', "'g'"]]), ("Capture('ab').group", ['is_case_insensitive'], [B]),
    ("Either('a', 'b').followed_by", ['pre'], [P]), ("Either('a', 'b').preceded_by", ['pre'], [P]), ("Either('a', 'b').enclosed_by", ['pre'], [P]),
    ("Either('a', 'b').not_followed_by", ['pre'], [P]), ("Either('a', 'b').not_preceded_by", ['pre'], [P]), ("Either('a', 'b').not_enclosed_by", ['pre'], [P]),
    (R + '.get_pattern', ['include_flags'], [B]), (R + '.get_compiled_pattern', ['discard_after'], [B]),
]
for _m in ('has_match', 'is_exact_match', 'get_matches', 'get_matches_and_pos', 'iterate_matches', 'iterate_matches_and_pos', 'split_by_match'):
    TABLE.append((R + '.' + _m, ['source', 'is_path'], [SRC, ['False']]))
for _m in ('get_captures', 'iterate_captures', 'get_named_captures', 'iterate_named_captures', 'split_by_capture'):
    TABLE.append((R + '.' + _m, ['source', 'include_empty', 'is_path'], [SRC, B, ['False']]))
for _m in ('get_captures_and_pos', 'iterate_captures_and_pos', 'get_named_captures_and_pos', 'iterate_named_captures_and_pos'):
    TABLE.append((R + '.' + _m, ['source', 'include_empty', 'relative_to_match', 'is_path'], [SRC, B, B, ['False']]))
for _m in ('get_matches_with_context', 'iterate_matches_with_context'):
    TABLE.append((R + '.' + _m, ['source', 'n_left', 'n_right', 'is_path'], [SRC, ['0', '1'], ['0', '3'], ['False']]))
TABLE.append((R + '.replace', ['source', 'repl', 'count', 'is_path'], [SRC, ["'X'", "''"], ['0', '1'], ['False']]))


def _outcome(src):
    try:
        with contextlib.redirect_stdout(io.StringIO()):
            v = eval(src, dict(NS))
        if isinstance(v, NS['Pregex']):
            return ('ok', type(v).__name__, str(v))
        if hasattr(v, '__next__'):
            v = list(v)
        if hasattr(v, 'pattern') and hasattr(v, 'flags'):
            v = (v.pattern, v.flags)
        return ('ok', repr(v))
    except Exception as e:  # noqa: BLE001
        return ('raise', type(e).__name__)


def _task(rows):
    dsl.setup_worker()
    viol, n = [], 0
    for prefix, names, domains in rows:
        for combo in itertools.product(*domains):
            pos = f"{prefix}({', '.join(combo)})"
            base = _outcome(pos)
            forms = []
            kw = [f"{k}={v}" for k, v in zip(names, combo)]
            forms.append(f"{prefix}({', '.join(kw)})")
            forms.append(f"{prefix}({', '.join(reversed(kw))})")
            for i in range(1, len(names)):
                forms.append(f"{prefix}({', '.join(list(combo[:i]) + kw[i:])})")
                forms.append(f"{prefix}({', '.join(list(combo[:i]) + list(reversed(kw[i:])))})")
            for f in dict.fromkeys(forms):
                n += 1
                got = _outcome(f)
                if got != base:
                    viol.append(V(f'C03|keyword|{f}', f"{f} -> {got!r} but the positional call {pos} -> {base!r}",
                                  "from mc.props.kwforms import _outcome\n" f"assert _outcome({f!r}) == _outcome({pos!r})"))
                    break
    return viol, n


def run(run_):
    n = 0
    for viol, k in common.pmap(_task, common.chunks(TABLE, 4)):
        run_.add(viol)
        n += k
    run_.count('keyword_spelling_calls', n)
    return n
