"""C06 (constructors denote the requested sets) and C07 (| - ~ are exact set algebra),
both over the whole of Unicode and under explored set-iteration orders (DESIGN.md 1.3, 3)."""
import itertools
import re
import string

from .. import common, den, dsl, rx, vset
from ..common import V
from ..env import NS

TOKENS = {
    'Backslash': '\\', 'Bullet': '\u2022', 'CarriageReturn': '\r', 'Copyright': '\u00a9', 'Division': '\u00f7',
    'Dollar': '$', 'Euro': '\u20ac', 'FormFeed': '\f', 'Infinity': '\u221e', 'Multiplication': '\u00d7',
    'Newline': '\n', 'Pound': '\u00a3', 'Registered': '\u00ae', 'Rupee': '\u20b9', 'Space': ' ', 'Tab': '\t',
    'Trademark': '\u2122', 'VerticalTab': '\v', 'WhiteBullet': '\u25e6', 'Yen': '\u00a5',
}

R = lambda a, b: (ord(a), ord(b))  # noqa: E731
# documented sets of the named classes (transcribed from docs/source comments, independent of classes.py's code paths)
NAMED = {
    'AnyLetter': den.norm([R('a', 'z'), R('A', 'Z')]),
    'AnyLowercaseLetter': den.norm([R('a', 'z')]),
    'AnyUppercaseLetter': den.norm([R('A', 'Z')]),
    'AnyDigit': den.norm([R('0', '9')]),
    'AnyWordChar': den.norm([R('a', 'z'), R('A', 'Z'), R('0', '9'), R('_', '_')]),
    'AnyPunctuation': den.from_chars(string.punctuation),
    'AnyWhitespace': den.from_chars(string.whitespace),
    'AnyGermanLetter': den.norm([R('a', 'z'), R('A', 'Z')] + [(ord(c), ord(c)) for c in 'äöüßÄÖÜẞ']),
    'AnyGreekLetter': den.norm([(0x386, 0x386), (0x388, 0x3ce)]),
    'AnyCyrillicLetter': den.norm([(0x400, 0x4ff)]),
    'AnyCJK': den.norm([(0x4e00, 0x9fd5)]),
    'AnyHebrewLetter': den.norm([(0x590, 0x5ff)]),
    'AnyKoreanLetter': den.norm([(0x3131, 0x314e), (0xac00, 0xd7a3)]),
}
BUT = {k: 'AnyBut' + k[3:] for k in NAMED}

ALPHA44 = list(string.punctuation) + list('abzA09_ \t\n') + ['é', '\U0010ffff']
ALPHA16 = list('\\]^[-/$.') + list('az09_ \n') + ['(']


def lit(c):
    return repr(c)


# ----------------------------------------------------------------------------------
# evaluating one case under schedules
# ----------------------------------------------------------------------------------
def outcome_of(expr, choices=None):
    code = _CODE.get(expr)
    if code is None:
        code = _CODE[expr] = compile(expr, '<case>', 'eval')
    (kind, val), sched = vset.run_with(choices, lambda: eval(code, _NS))
    return kind, val, sched


_CODE = {}
_NS = dict(NS)


def judge(kind, val, expected):
    """expected: ('den', intervals) | ('raise', {names}) | ('either', intervals, {names}).
    -> None if fine, else (mode, message)"""
    if expected[0] == 'raise':
        if kind == 'raise' and type(val).__name__ in expected[1]:
            return None
        got = type(val).__name__ if kind == 'raise' else 'returned ' + repr(str(val))
        return ('accepted' if kind == 'ok' else 'raised:' + type(val).__name__,
                f"must raise {'/'.join(sorted(expected[1]))}, got {got}")
    if kind == 'raise':
        if expected[0] == 'either' and type(val).__name__ in expected[2]:
            return None
        return ('raised:' + type(val).__name__, f"raised {type(val).__name__}: {str(val)[:100]}")
    text = str(val)
    try:
        d, mask = den.of_text(text)
    except (re.error, ValueError, rx.Unparsable) as e:
        return ('uncompilable', f"returned {text!r} which is not a one-character pattern: {e}")
    want = den.diff(expected[1], mask)
    if d != want:
        extra, missing = den.diff(d, want), den.diff(want, d)
        return ('wrong-denotation', f"returned {text!r}: wrongly matches [{den.show(extra)}], fails to match [{den.show(missing)}]")
    return None


def snippet(expr, expected):
    if expected[0] == 'raise':
        names = ', '.join(sorted(expected[1]))
        return (f"try:\n    r = {expr}\nexcept ({names}):\n    pass\nelse:\n    raise AssertionError('accepted: ' + str(r))")
    lines = []
    if expected[0] == 'either':
        names = ', '.join(sorted(expected[2]))
        lines += [f"try:\n    r = {expr}\nexcept ({names}):\n    r = None"]
    else:
        lines += [f"r = {expr}"]
    lines += ["from mc import den", "if r is not None:", "    d, m = den.of_text(str(r))",
              f"    assert d == den.diff({expected[1]!r}, m), (str(r), den.show(d))"]
    return '\n'.join(lines)


def explore_case(pid, expr, expected, acc, deviations=1, full=False):
    """runs expr under the default order and under every schedule with <= `deviations` deviations"""
    kind, val, sched = outcome_of(expr)
    acc['executions'] += 1
    bad = judge(kind, val, expected)
    text = str(val) if kind == 'ok' else None
    if text is not None:
        acc['texts'].add(text)
    if bad:
        acc['viol'].append(V(f"{pid}|{expr}|{bad[0]}", f"{expr}: {bad[1]}", snippet(expr, expected)))
        return
    if deviations < 1:
        return
    points = sched.points
    acc['choice_points'] += len(points)
    seen_modes = set()
    singles = []
    for i, n in enumerate(points):
        for alt in vset.alternatives(n, full):
            singles.append((i, alt))
    runs = [dict([s]) for s in singles]
    if deviations >= 2:
        red = [(i, alt) for i, n in enumerate(points) for alt in vset.alternatives(n, False)]
        for (i, a), (j, b) in itertools.combinations(red, 2):
            if i != j:
                runs.append({i: a, j: b})
    for ch in runs:
        kind, val, _ = outcome_of(expr, ch)
        acc['executions'] += 1
        acc['schedules'] += 1
        if kind == 'ok':
            acc['texts'].add(str(val))
        bad = judge(kind, val, expected)
        if bad and bad[0] not in seen_modes:
            seen_modes.add(bad[0])
            acc['viol'].append(V(f"{pid}|{expr}|{bad[0]}|order-dependent",
                                 f"{expr} under set order {ch}: {bad[1]}", snippet(expr, expected),
                                 schedule=repr(ch), order_dependent=True))


def new_acc():
    return {'viol': [], 'executions': 0, 'schedules': 0, 'choice_points': 0, 'texts': set(), 'cases': 0}


# ----------------------------------------------------------------------------------
# C06
# ----------------------------------------------------------------------------------
ITYPE = {'InvalidArgumentTypeException'}


def c06_cases(tier):
    """-> iterator of (expr, expected)"""
    thorough = tier == 'thorough'
    out = []
    # E2 pairs and triples
    for a, b in itertools.product(ALPHA44, repeat=2):
        s = den.from_chars([a, b])
        out.append((f"AnyFrom({lit(a)}, {lit(b)})", ('den', s)))
        out.append((f"AnyButFrom({lit(a)}, {lit(b)})", ('den', den.compl(s))))
    for t in itertools.product(ALPHA16, repeat=3):
        s = den.from_chars(t)
        args = ', '.join(lit(c) for c in t)
        out.append((f"AnyFrom({args})", ('den', s)))
        if thorough or t[0] <= t[1]:
            out.append((f"AnyButFrom({args})", ('den', den.compl(s))))
    # characters that Unicode normalisation would replace by another character (singleton decompositions, composition exclusions)
    for ch in ('\u212a', '\u2126', '\u212b', '\u0340', '\u0341', '\u0958', '\u037e', '\uf900', '\u1e9b', '\ufb01', '\u00e9', '\u0301'):
        s = den.from_chars([ch])
        out.append((f"AnyFrom({lit(ch)})", ('den', s)))
        out.append((f"AnyButFrom({lit(ch)})", ('den', den.compl(s))))
        out.append((f"AnyFrom({lit(ch)}, 'K')", ('den', den.from_chars([ch, 'K']))))
        out.append((f"AnyBetween({lit(ch)}, '\\U0010ffff')", ('den', den.norm([(ord(ch), 0x10ffff)]))))
    for two in ("'e\\u0301'", "'\\u0915\\u093c'", "'a\\u0300'"):
        out.append((f"AnyFrom({two})", ('raise', ITYPE)))
        out.append((f"AnyButFrom('a', {two})", ('raise', ITYPE)))
    # E3 tokens as arguments
    for name, ch in TOKENS.items():
        out.append((f"AnyFrom({name}())", ('den', den.from_chars([ch]))))
        out.append((f"AnyButFrom({name}())", ('den', den.compl(den.from_chars([ch])))))
        out.append((f"{name}()", ('den', den.from_chars([ch]))))
        for c in 'a-]\\^[$/':
            s = den.from_chars([ch, c])
            out.append((f"AnyFrom({name}(), {lit(c)})", ('den', s)))
            out.append((f"AnyFrom({lit(c)}, {name}())", ('den', s)))
            out.append((f"AnyButFrom({lit(c)}, {name}())", ('den', den.compl(s))))
        for other in ('Backslash', 'Dollar', 'Newline'):
            s = den.from_chars([ch, TOKENS[other]])
            out.append((f"AnyFrom({name}(), {other}())", ('den', s)))
        for c in 'a~':
            lo, hi = sorted([ch, c])
            if lo != hi:
                exp = ('den', den.norm([(ord(lo), ord(hi))]))
                a1 = f"{name}()" if lo == ch else lit(lo)
                a2 = f"{name}()" if hi == ch else lit(hi)
                out.append((f"AnyBetween({a1}, {a2})", exp))
                out.append((f"AnyButBetween({a1}, {a2})", ('den', den.compl(exp[1]))))
    pr = [chr(c) for c in range(32, 127)]
    # token-typed one-character patterns and token instances in every argument position (first, middle, last),
    # next to neighbours with which an unescaped '-', '^' or ']' would form a range, a negation or the end of the class
    targs = [(f"Pregex({lit(c)})", c) for c in pr] + [(f"{name}()", ch) for name, ch in TOKENS.items()]
    for src, ch in targs:
        for tmpl, others in (("{0}", ''), ("'+', {0}, 'a'", '+a'), ("{0}, 'a'", 'a'), ("'a', {0}", 'a'), ("']', {0}, '['", '][')):
            s = den.from_chars([ch] + list(others))
            out.append((f"AnyFrom({tmpl.format(src)})", ('den', s)))
            out.append((f"AnyButFrom({tmpl.format(src)})", ('den', den.compl(s))))
    for src, ch in targs[:95]:
        for a1, a2, lo_, hi_ in ((src, "'~'", ch, '~'), ("' '", src, ' ', ch), (src, "Pregex('z')", ch, 'z')):
            if ord(lo_) < ord(hi_):
                s = den.norm([(ord(lo_), ord(hi_))])
                out.append((f"AnyBetween({a1}, {a2})", ('den', s)))
                out.append((f"AnyButBetween({a1}, {a2})", ('den', den.compl(s))))
            else:
                out.append((f"AnyBetween({a1}, {a2})", ('raise', {'InvalidRangeException'})))
    # E4 ranges: all ordered pairs of printable ASCII
    for a, b in itertools.product(pr, repeat=2):
        if ord(a) < ord(b):
            s = den.norm([(ord(a), ord(b))])
            out.append((f"AnyBetween({lit(a)}, {lit(b)})", ('den', s)))
            out.append((f"AnyButBetween({lit(a)}, {lit(b)})", ('den', den.compl(s))))
        else:
            out.append((f"AnyBetween({lit(a)}, {lit(b)})", ('raise', {'InvalidRangeException'})))
            out.append((f"AnyButBetween({lit(a)}, {lit(b)})", ('raise', {'InvalidRangeException'})))
    # tokens as range end points, against every printable ASCII character, in both positions
    for name in ('Backslash', 'Dollar', 'Newline', 'Space', 'Tab', 'Euro'):
        ch = TOKENS[name]
        for c in pr:
            for a1, a2, lo_, hi_ in ((f"{name}()", lit(c), ch, c), (lit(c), f"{name}()", c, ch)):
                if ord(lo_) < ord(hi_):
                    s = den.norm([(ord(lo_), ord(hi_))])
                    out.append((f"AnyBetween({a1}, {a2})", ('den', s)))
                    out.append((f"AnyButBetween({a1}, {a2})", ('den', den.compl(s))))
                else:
                    out.append((f"AnyBetween({a1}, {a2})", ('raise', {'InvalidRangeException'})))
                    out.append((f"AnyButBetween({a1}, {a2})", ('raise', {'InvalidRangeException'})))
    for a, b in [('\x00', 'a'), ('\t', '\r'), ('\n', ' '), ('z', 'é'), ('Z', 'Ά'), ('ώ', 'Ѐ'), ('ӿ', '\u0590'),
                 ('\u05ff', '\u3131'), ('\u314e', '\u4e00'), ('\u9fd5', '\uac00'), ('\ud7a3', '\uffff'),
                 ('\uffff', '\U00010000'), ('a', '\U0010ffff'), ('\x00', '\U0010ffff'), ('\ud7ff', '\ue000')]:
        s = den.norm([(ord(a), ord(b))])
        out.append((f"AnyBetween({lit(a)}, {lit(b)})", ('den', s)))
        out.append((f"AnyButBetween({lit(a)}, {lit(b)})", ('den', den.compl(s))))
    # E5 named classes
    for name, s in NAMED.items():
        if name == 'AnyWordChar':
            for gl in (False, True):
                out.append((f"AnyWordChar(is_global={gl})", ('den', s)))
                out.append((f"AnyButWordChar(is_global={gl})", ('den', den.compl(s))))
            out.append(("AnyWordChar()", ('den', s)))
            out.append(("AnyButWordChar()", ('den', den.compl(s))))
        else:
            out.append((f"{name}()", ('den', s)))
            out.append((f"{BUT[name]}()", ('den', den.compl(s))))
    out.append(("Any()", ('den', den.ALL)))
    # E7 invalid arguments
    for cls in ('AnyFrom', 'AnyButFrom'):
        out.append((f"{cls}()", ('raise', {'NotEnoughArgumentsException'})))
        for bad in ("('a', 'b')", "()", "('a',)", "{'a'}", "b'a'", "'a', ('b', 'c')", "('a', 'b', 'c'), 'd'",
                    "'ab'", "''", "1", "None", "True", "1.5", "['a']", "AnyDigit()", "Pregex('ab')", "Pregex()",
                    "'\\\\\\\\'", "Pregex('a') + 'b'", "'a', 'bc'", "'a', 1", "Newline(), 'xy'"):
            out.append((f"{cls}({bad})", ('raise', ITYPE)))
    for cls in ('AnyBetween', 'AnyButBetween'):
        for bad in ("('a', 'b'), 'z'", "'a', ('y', 'z')", "(), 'z'", "'a', ('z',)",
                    "'ab', 'z'", "'a', 'yz'", "1, 'z'", "'a', None", "'a', True", "AnyDigit(), 'z'", "'', 'z'", "'a', ''",
                    "Pregex('ab'), 'z'", "['a'], 'z'"):
            out.append((f"{cls}({bad})", ('raise', ITYPE)))
    return out


def _task_c06_cp(rng):
    lo, hi = rng
    acc = new_acc()
    for cp in range(lo, hi):
        c = chr(cp)
        s = ((cp, cp),)
        for expr, exp in ((f"AnyFrom({c!r})", ('den', s)), (f"AnyButFrom({c!r})", ('den', den.compl(s)))):
            acc['cases'] += 1
            try:
                compile(expr, '<cp>', 'eval')
            except (SyntaxError, ValueError, UnicodeEncodeError):
                expr = expr.replace(repr(c), 'chr(%d)' % cp)
            explore_case('C06', expr, exp, acc, deviations=1)
    _CODE.clear()
    acc['texts'] = set(list(acc['texts'])[:20])
    return acc


def _task_c06(arg):
    cases, deviations, full = arg
    dsl.setup_worker()
    acc = new_acc()
    for expr, exp in cases:
        acc['cases'] += 1
        explore_case('C06', expr, exp, acc, deviations, full)
    return acc


def _brute_task(texts):
    bad = []
    for t in texts:
        try:
            d, m = den.of_text(t)
        except (re.error, ValueError, rx.Unparsable):
            continue   # not a class pattern at all: already reported as a violation of the case
        try:
            b = den.brute(t)
        except Exception as e:  # noqa: BLE001
            bad.append((t, repr(e)))
            continue
        if den.diff(b, m) != d:
            bad.append((t, 'tree-derived denotation differs from brute force'))
    return bad, len(texts)


def merge(run, accs):
    tot = new_acc()
    for a in accs:
        run.add(a['viol'])
        for k in ('executions', 'schedules', 'choice_points', 'cases'):
            tot[k] += a[k]
        tot['texts'] |= a['texts']
    return tot


def cross_validate(texts, limit):
    texts = sorted(texts)[:limit]
    n = 0
    for bad, k in common.pmap(_brute_task, common.chunks(texts, max(1, len(texts) // (4 * common.NPROC) + 1))):
        n += k
        if bad:
            raise common.Internal('denotation engine disagrees with brute force: %r' % (bad[:3],))
    return n


def run_C06(run):
    thorough = run.tier == 'thorough'
    cases = c06_cases(run.tier)
    dev = 2 if thorough else 1
    accs = common.pmap(_task_c06, [(c, 1, thorough) for c in common.chunks(cases, 400)])
    if thorough:
        # two deviations on the metacharacter core: every pair and triple over the class metacharacters + 'a'
        core = [c for c in cases if c[0].startswith(('AnyFrom(', 'AnyButFrom(')) and c[0].count(',') <= 2
                and all(ch in "\\]^[-/$.a'," + ' ()AnyFromBut' for ch in c[0])]
        accs += common.pmap(_task_c06, [(c, 2, False) for c in common.chunks(core, 20)])
    if thorough:
        ranges = [(i, min(i + 0x2000, 0x110000)) for i in range(0, 0x110000, 0x2000)]
    else:
        ranges = [(i, i + 0x200) for i in range(0, 0x3000, 0x200)]
        ranges += [(b - 2, b + 2) for b in (0xd800, 0xe000, 0xfffe, 0x10000, 0x1f600, 0x20000, 0xe0000, 0x10fffe)]
    accs += common.pmap(_task_c06_cp, ranges)
    tot = merge(run, accs)
    nb = cross_validate(tot['texts'], 20000 if thorough else 600)
    run.merge_counts({k: tot[k] for k in ('executions', 'schedules', 'choice_points', 'cases')})
    run.count('distinct_emitted_texts', len(tot['texts']))
    run.count('texts_cross_validated_by_brute_force_over_all_code_points', nb)
    for expr, exp in (cases[5], cases[len(cases) // 2], cases[-3]):
        run.sample({'case': expr, 'expected': exp[0], 'detail': den.show(exp[1]) if exp[0] == 'den' else sorted(exp[1])})
    cov = {
        'states': tot['cases'],
        'transitions': tot['executions'],
        'traces_validated_against_impl': tot['executions'] + nb,
        'evaluations': tot['executions'],
        'distinct_nontrivial': tot['cases'],
        'rule': 'one case = one constructor call with one argument tuple; every case is executed under the sorted set order and '
                f'under every schedule with <= {dev} order deviations; membership is decided over all 1,114,112 code points '
                'from the normal form of the emitted text (cross-validated by brute force)',
        'exhaustive': True,
        'bounds': {'codepoints_single': 'all' if thorough else 'U+0000..U+2FFF + plane boundaries',
                   'pairs_alphabet': len(ALPHA44), 'triples_alphabet': len(ALPHA16), 'ascii_ranges': '95 x 95 ordered pairs',
                   'order_deviations': '1 everywhere' + (', 2 on the metacharacter core (reduced family)' if thorough else ''),
                   'order_alternatives': 'all permutations for sets of <= 5 elements (single deviations)' if thorough else
                   'reversal, element-to-front, element-to-back, adjacent swap'},
    }
    return cov, ['code points that only Unicode-aware \\d \\s \\w add are masked out, as the property states',
                 'named non-ASCII classes are compared with the ranges documented in the source comments/docs',
                 'set orders are an over-approximation of real hash orders; violations are confirmed under a real PYTHONHASHSEED before being reported']


# ----------------------------------------------------------------------------------
# C07: the class value graph under | - ~
# ----------------------------------------------------------------------------------
def c07_atoms(tier):
    L = 'abcdefgh'
    reg = []
    for i in range(len(L)):
        reg.append(f"AnyFrom({L[i]!r})")
        for j in range(i + 1, len(L)):
            reg.append(f"AnyBetween({L[i]!r}, {L[j]!r})")
    reg += ["AnyBetween('Z', 'a')", "AnyBetween('X', 'c')", "AnyBetween('[', '^')", "AnyBetween('+', '/')",
            "AnyBetween('*', '.')", "AnyBetween('$', 'A')", "AnyBetween(' ', '$')",
            "AnyFrom('[', ']')", "AnyFrom('\\\\')", "AnyFrom('^', '-')", "AnyFrom('-')", "AnyFrom('/', '$')",
            "AnyFrom('.')", "AnyFrom(']')", "AnyFrom('[')", "AnyFrom('^')", "AnyFrom('a', 'c', 'e')",
            "AnyFrom('b', 'd')", "AnyFrom('\\n', ' ')", "AnyFrom('(', ')')", "AnyFrom('_', 'Z')", "AnyFrom('`', '{')",
            'AnyLetter()', 'AnyDigit()', 'AnyWordChar()', 'AnyWordChar(is_global=True)', 'AnyPunctuation()',
            'AnyWhitespace()', 'AnyLowercaseLetter()', 'AnyUppercaseLetter()', 'Any()', 'AnyGreekLetter()',
            'AnyGermanLetter()', "AnyBetween('0', '4')", "AnyBetween('5', '9')", "AnyBetween('a', 'z')",
            "AnyBetween('\\x00', '\\x7f')", "AnyBetween('\\x00', '\\x1f')", "AnyFrom('\\x00')", "AnyBetween('a', '\\U0010ffff')",
            "AnyFrom('\\U0010ffff')", "AnyBetween('\\U0010fff0', '\\U0010ffff')", "AnyFrom('\\x00', '\\x01', 'a')",
            "AnyFrom('\\U0010fffe', '\\U0010ffff', 'a')", "AnyBetween('\\ud7ff', '\\ue000')"]
    neg = ["AnyButFrom('a', 'c')", "AnyButFrom('b')", "AnyButBetween('b', 'f')", "AnyButBetween('a', 'h')",
           'AnyButDigit()', 'AnyButWordChar()', 'AnyButWordChar(is_global=True)', 'AnyButLetter()',
           'AnyButWhitespace()', 'AnyButPunctuation()', "AnyButFrom(']', '[')", "AnyButFrom('-', '^')",
           "AnyButBetween('Z', 'a')", "AnyButFrom('\\\\')"]
    other = ["'a'", "'-'", "']'", "'\\\\'", "'^'", 'Newline()', 'Backslash()', 'Dollar()', "Pregex('b')",
             "'ab'", "5", "Pregex('ab')", "None", "''"]
    core = ["AnyFrom('a')", "AnyBetween('a', 'c')", "AnyBetween('b', 'e')", "AnyBetween('a', 'h')", "AnyBetween('c', 'd')",
            "AnyBetween('d', 'f')", "AnyFrom('d')", "AnyFrom('a', 'c', 'e')", "AnyBetween('Z', 'a')", "AnyBetween('[', '^')",
            "AnyFrom('[', ']')", "AnyFrom('\\\\')", "AnyFrom('^', '-')", "AnyFrom('-')", "AnyFrom(']')", "AnyFrom('[')",
            'AnyLetter()', 'AnyDigit()', 'AnyWordChar()', 'AnyWordChar(is_global=True)', 'AnyPunctuation()', 'AnyWhitespace()',
            'Any()', "AnyButFrom('a', 'c')", "AnyButBetween('b', 'f')", 'AnyButDigit()', 'AnyButWordChar()',
            "AnyButFrom(']', '[')", "AnyButFrom('-', '^')", "'a'", "'-'", "']'", "'\\\\'", 'Newline()', 'Backslash()',
            "AnyBetween('+', '/')", "AnyFrom('/', '$')", 'AnyButWhitespace()', "AnyBetween('a', 'z')", "AnyBetween('0', '4')"]
    return reg, neg, other, core


def _info(obj):
    """model view of an operand: ('class', regular?, definite-den, mask, is_any, global_word) |
    ('token', ch) | ('other',)"""
    P = NS['Pregex']
    if isinstance(obj, str):
        return ('token', obj) if len(obj) == 1 else ('other',)
    if not isinstance(obj, P):
        return ('other',)
    if hasattr(obj, '_get_verbose_pattern'):
        text = str(obj)
        d, m = den.of_text(text)
        neg = obj._get_verbose_pattern().startswith('[^')
        is_any = type(obj).__name__ == 'Any'
        gw = type(obj).__name__ in ('AnyWordChar', 'AnyButWordChar') and obj._is_global()
        return ('class', not neg, d, m, is_any, gw)
    # a Pregex that denotes one character (the tokens module, or a one-character literal)
    try:
        t = rx.parse(str(obj), False).tree
    except re.error:
        return ('other',)
    if t[0] == 'lit':
        return ('token', chr(t[1]))
    return ('other',)


def model_binary(op, ia, ib, reflected):
    """expected outcome of `a op b` where the *class* operand decides (a is the class unless reflected)."""
    exc_un = 'CannotBeUnionedException' if op == '|' else 'CannotBeSubtractedException'
    # normalise: cls = the operand whose dunder method runs
    cls, oth = (ib, ia) if reflected else (ia, ib)
    if cls[0] != 'class':
        return None
    if oth[0] == 'token':
        if not cls[1]:
            return ('raise', {exc_un})        # negated classes do not take bare tokens (documented)
        s = den.from_chars([oth[1]])
        oth = ('class', True, s, (), False, False)
    if oth[0] != 'class':
        return ('raise', {exc_un})
    a, b = (oth, cls) if reflected else (cls, oth)
    if a[1] != b[1]:
        return ('raise', {exc_un})
    mask = den.union(a[3], b[3])
    regular = a[1]
    if op == '|':
        if a[4] or b[4]:
            return ('den', den.ALL)
        if regular:
            return ('den', den.union(a[2], b[2]), mask)
        # negated: excluded sets are unioned
        ea, eb = den.compl(den.union(a[2], a[3])), den.compl(den.union(b[2], b[3]))
        return ('den', den.diff(den.compl(den.union(ea, eb)), mask), mask)
    # subtraction
    if b[4]:
        return ('raise', {'EmptyClassException'})
    if a[4]:
        # Any - B  ==  ~B
        return ('den', den.diff(den.compl(b[2]), mask), mask)
    if a[5]:
        return ('raise', {'GlobalWordCharSubtractionException'})
    if regular:
        r = den.diff(a[2], den.union(b[2], mask))
    else:
        ea, eb = den.compl(den.union(a[2], a[3])), den.compl(den.union(b[2], b[3]))
        excl = den.diff(ea, eb)
        if not excl:
            return ('raise', {'EmptyClassException'}) if not mask else ('either', den.ALL, {'EmptyClassException'}, mask)
        return ('den', den.diff(den.compl(excl), mask), mask)
    if not r:
        if mask:
            return ('either', (), {'EmptyClassException'}, mask)
        return ('raise', {'EmptyClassException'})
    return ('den', r, mask)


def judge7(kind, val, expected):
    if expected[0] == 'raise':
        return judge(kind, val, expected)
    mask = expected[-1] if len(expected) > 2 and isinstance(expected[-1], tuple) and expected[0] != 'raise' else ()
    if kind == 'raise':
        if expected[0] == 'either' and type(val).__name__ in expected[2]:
            return None
        return ('raised:' + type(val).__name__, f"raised {type(val).__name__}: {str(val)[:100]}")
    text = str(val)
    try:
        d, m = den.of_text(text)
    except (re.error, ValueError, rx.Unparsable) as e:
        return ('uncompilable', f"returned {text!r} which is not a one-character pattern: {e}")
    if expected[0] == 'either' and not expected[1]:
        # the model difference is empty up to unspecified members: any result must live inside the mask
        M = den.union(m, mask)
        if den.diff(d, M):
            return ('wrong-denotation', f"returned {text!r}: wrongly matches [{den.show(den.diff(d, M))}]")
        return None
    M = den.union(m, mask)
    got, want = den.diff(d, M), den.diff(expected[1], M)
    if got != want:
        return ('wrong-denotation', f"returned {text!r}: wrongly matches [{den.show(den.diff(got, want))}], "
                                    f"fails to match [{den.show(den.diff(want, got))}]")
    return None


def _eval_operand(expr):
    code = _CODE.get(expr)
    if code is None:
        code = _CODE[expr] = compile(expr, '<case>', 'eval')
    return eval(code, _NS)


def c07_case(pid, expr, opinfo, acc, deviations, full=False):
    """expr is the full python expression; opinfo = (op, exprA, exprB|None, reflected)"""
    op, ea, eb, reflected = opinfo
    # the model reads the operands' *own* emitted patterns, built under the default order
    (k0, operands), _ = vset.run_with(None, lambda: (_eval_operand(ea), _eval_operand(eb) if eb is not None else None))
    if k0 != 'ok':
        acc['skipped_operand_raises'] = acc.get('skipped_operand_raises', 0) + 1
        return
    try:
        ia = _info(operands[0])
        ib = _info(operands[1]) if eb is not None else None
    except (re.error, ValueError, rx.Unparsable):
        acc['skipped_operand_broken'] = acc.get('skipped_operand_broken', 0) + 1
        return
    if op == '~':
        if ia[0] != 'class':
            return
        if ia[4]:
            expected = ('raise', {'CannotBeNegatedException'})
        else:
            expected = ('den', den.diff(den.compl(ia[2]), ia[3]), ia[3])
    elif op == '~~':
        if ia[0] != 'class' or ia[4]:
            return
        expected = ('den', ia[2], ia[3])
    else:
        expected = model_binary(op, ia, ib, reflected)
        if expected is None:
            return
    acc['cases'] += 1
    kind, val, sched = outcome_of(expr)
    acc['executions'] += 1
    bad = judge7(kind, val, expected)
    if kind == 'ok':
        acc['texts'].add(str(val))
        acc.setdefault('results', {}).setdefault(str(val), expr)
    acc.setdefault('outcomes', set()).add(kind if kind == 'ok' else type(val).__name__)
    snip = c07_snippet(expr, expected)
    if bad:
        acc['viol'].append(V(f"{pid}|{expr}|{bad[0]}", f"{expr}: {bad[1]}", snip))
        return
    if deviations < 1:
        return
    singles = []
    for i, n in enumerate(sched.points):
        for alt in vset.alternatives(n, full):
            singles.append((i, alt))
    runs = [dict([s]) for s in singles]
    if deviations >= 2:
        red = [(i, alt) for i, n in enumerate(sched.points) for alt in vset.alternatives(n, False)]
        for (i, a), (j, b) in itertools.combinations(red, 2):
            if i != j:
                runs.append({i: a, j: b})
    seen = set()
    for ch in runs:
        kind, val, _ = outcome_of(expr, ch)
        acc['executions'] += 1
        acc['schedules'] += 1
        if kind == 'ok':
            acc['texts'].add(str(val))
        bad = judge7(kind, val, expected)
        if bad and bad[0] not in seen:
            seen.add(bad[0])
            acc['viol'].append(V(f"{pid}|{expr}|{bad[0]}|order-dependent",
                                 f"{expr} under set order {ch}: {bad[1]}", snip, schedule=repr(ch), order_dependent=True))


def c07_snippet(expr, expected):
    if expected[0] == 'raise':
        return snippet(expr, expected)
    mask = expected[-1]
    lines = []
    if expected[0] == 'either':
        names = ', '.join(sorted(expected[2]))
        lines += [f"try:\n    r = {expr}\nexcept ({names}):\n    r = None"]
    else:
        lines += [f"r = {expr}"]
    lines += ["from mc import den", "if r is not None:", "    d, m = den.of_text(str(r))",
              f"    M = den.union(m, {mask!r})",
              f"    assert den.diff(d, M) == den.diff({expected[1]!r}, M), (str(r), den.show(d))"]
    return '\n'.join(lines)


def _pairs(A, B):
    out = []
    for a in A:
        for b in B:
            for op in ('|', '-'):
                out.append((f"({a}) {op} ({b})", (op, a, b, False)))
    return out


def _task_c07(arg):
    cases, dev, full = arg
    dsl.setup_worker()
    acc = new_acc()
    for expr, info in cases:
        c07_case('C07', expr, info, acc, dev, full)
    return acc


def _task_second_use(arg):
    """the second operation on the same class object must give what it gives on a fresh object"""
    xs, steps = arg
    acc = new_acc()
    for x in xs:
        for (op1, a1), (op2, a2) in itertools.product(steps, repeat=2):
            e1 = f"x {op1} ({a1})" if op1 != '~' else "~x"
            e2 = f"x {op2} ({a2})" if op2 != '~' else "~x"
            src_used = f"(lambda x: [_try(lambda: {e1}), {e2}][1])({x})"
            src_fresh = e2.replace('x', f'({x})', 1)
            acc['cases'] += 1
            ns = dict(_NS)
            ns['_try'] = _try
            outs = []
            for src in (src_used, src_fresh):
                (k, v), _ = vset.run_with(None, lambda: eval(src, ns))
                acc['executions'] += 1
                if k == 'ok':
                    try:
                        outs.append(('den',) + den.of_text(str(v)))
                    except (re.error, ValueError, rx.Unparsable):
                        outs.append(('text', str(v)))
                else:
                    outs.append(('raise', type(v).__name__))
            if outs[0] != outs[1]:
                acc['viol'].append(V(f"C07|second-use|{x}|{e1}|{e2}",
                                     f"x = {x}; {e1}; then {e2} gives {outs[0][:2]!r}, on a fresh object {outs[1][:2]!r}",
                                     f"from mc.props.c20 import sig_of\nx = {x}\ntry:\n    {e1}\nexcept Exception:\n    pass\n"
                                     f"def out(f):\n    try:\n        r = f()\n    except Exception as e:\n        return type(e).__name__\n"
                                     f"    from mc import den\n    return den.of_text(str(r))\n"
                                     f"assert out(lambda: {e2}) == out(lambda: {src_fresh})"))
    return acc


def _try(f):
    try:
        return f()
    except Exception:  # noqa: BLE001
        return None


def run_C07(run):
    thorough = run.tier == 'thorough'
    reg, neg, other, core = c07_atoms(run.tier)
    classes = reg + neg
    cases = []
    # depth 1, complete over atoms x atoms (class x class, class x token/other and the reflected forms)
    A1 = classes if thorough else [c for c in classes if c in core or classes.index(c) % 2 == 0]
    cases += _pairs(A1, A1)
    for c in classes:
        cases.append((f"~({c})", ('~', c, None, False)))
        cases.append((f"~(~({c}))", ('~~', c, None, False)))
        for o in other:
            for op in ('|', '-'):
                cases.append((f"({c}) {op} ({o})", (op, c, o, False)))
                cases.append((f"({o}) {op} ({c})", (op, o, c, True)))
    accs = common.pmap(_task_c07, [(c, 0, False) for c in common.chunks(cases, 500)])
    # order deviations on the core
    dev = 2 if thorough else 1
    core_cls = [c for c in core if not c.startswith(("'", 'Newline', 'Backslash'))]
    oc = _pairs(core_cls, core_cls) + [(f"~({c})", ('~', c, None, False)) for c in core_cls]
    oc += [(f"({c}) {op} ({o})", (op, c, o, False)) for c in core_cls for o in ("'a'", "'-'", "']'", "'\\\\'", 'Backslash()') for op in '|-']
    accs += common.pmap(_task_c07, [(c, dev, thorough) for c in common.chunks(oc, 60)])
    # depth 2: every distinct depth-1 result, combined with the core on both sides and negated
    results = {}
    for a in accs:
        for text, expr in a.get('results', {}).items():
            results.setdefault(text, expr)
    d2 = []
    lim = None if thorough else 700
    for text, expr in sorted(results.items())[:lim]:
        for c in core:
            for op in ('|', '-'):
                d2.append((f"({expr}) {op} ({c})", (op, expr, c, False)))
                d2.append((f"({c}) {op} ({expr})", (op, c, expr, not c.startswith(('Any',)))))
        d2.append((f"~({expr})", ('~', expr, None, False)))
        d2.append((f"~(~({expr}))", ('~~', expr, None, False)))
    accs2 = common.pmap(_task_c07, [(c, 0, False) for c in common.chunks(d2, 800)])
    # interval configurations: every ordered triple of ranges/characters over a short ordered alphabet, combined in both
    # association shapes, under every set order reachable with one deviation (all permutations of each iterated set)
    letters = 'abcdefg' if thorough else 'abcdef'
    elems = [f"AnyBetween({x!r}, {y!r})" for i, x in enumerate(letters) for y in letters[i + 1:]]
    elems += [f"AnyFrom({x!r})" for x in (letters[0], letters[2], letters[-1])]
    ic = []
    for a, b, c in itertools.product(elems, repeat=3):
        if a == b or b == c:
            continue
        ic.append((f"(({a}) | ({b})) | ({c})", ('|', f"(({a}) | ({b}))", c, False)))
        if a < b:
            ic.append((f"(({a}) | ({b})) - ({c})", ('-', f"(({a}) | ({b}))", c, False)))
        if b < c:
            ic.append((f"({a}) - (({b}) | ({c}))", ('-', a, f"(({b}) | ({c}))", False)))
            ic.append((f"({a}) | (({b}) | ({c}))", ('|', a, f"(({b}) | ({c}))", False)))
    # the same for four ranges, on the configurations where one range meets several others
    wide = [f"AnyBetween({letters[0]!r}, {y!r})" for y in letters[1:4]]
    for a in wide:
        for b, c, d in itertools.permutations([e for e in elems if 'Between' in e and e not in wide][:8], 3):
            ic.append((f"((({b}) | ({c})) | ({d})) | ({a})", ('|', f"((({b}) | ({c})) | ({d}))", a, False)))
    accs += common.pmap(_task_c07, [(c, 1, True) for c in common.chunks(ic, 200)])
    run.count('interval_configuration_cases', len(ic))
    # second use of the same object
    core_cls_all = [c for c in core if c.startswith('Any')] + ["AnyFrom('a', 'z', '5')", "AnyFrom('a', 'b', 'x')"]
    steps = [('-', "'z'"), ('-', "'a'"), ('|', "'q'"), ('-', "AnyFrom('a', 'b')"), ('|', "AnyBetween('c', 'k')"), ('-', "AnyBetween('b', 'y')"), ('~', ''),
             ('-', "'x'"), ('|', "AnyDigit()")]
    accs3 = common.pmap(_task_second_use, [(c, steps) for c in common.chunks(core_cls_all, 3)])
    tot = merge(run, accs + accs2 + accs3)
    outcomes = set()
    for a in accs + accs2:
        outcomes |= a.get('outcomes', set())
        for k in ('skipped_operand_raises', 'skipped_operand_broken'):
            run.count(k, a.get(k, 0))
    nb = cross_validate(tot['texts'], 20000 if thorough else 500)
    run.merge_counts({k: tot[k] for k in ('executions', 'schedules', 'choice_points', 'cases')})
    run.count('distinct_emitted_texts', len(tot['texts']))
    run.count('depth1_distinct_results', len(results))
    for expr, info in (cases[7], oc[11], d2[len(d2) // 3]):
        run.sample({'case': expr})
    if len(outcomes) < 3:
        raise common.Internal('vacuous class exploration: outcomes %r' % (outcomes,))
    cov = {
        'states': len(classes) + len(results) + len(tot['texts']),
        'transitions': tot['cases'],
        'traces_validated_against_impl': tot['executions'] + nb,
        'evaluations': tot['executions'],
        'distinct_nontrivial': tot['cases'],
        'distinct_outcomes': sorted(outcomes),
        'rule': 'class value graph: atoms x atoms under | and - (both operand orders), ~ and ~~, reflected forms with '
                'characters/tokens/non-classes; depth 2 = every distinct depth-1 result combined with the 40-atom core on both sides; '
                f'the core x core space is re-run under every schedule with <= {dev} set-order deviations; each result is judged on its '
                'exact denotation over all code points against set arithmetic on the operands\' own denotations',
        'exhaustive': True,
        'bounds': {'atoms': len(classes), 'other_operands': len(other), 'core': len(core), 'depth1_atoms_paired': len(A1),
                   'depth2_roots': len(results) if lim is None else min(lim, len(results)), 'order_deviations': dev},
    }
    return cov, ['code points that only Unicode-aware \\d \\s \\w add are masked out (C06 caveat)',
                 'when such members are involved an empty model difference accepts either EmptyClassException or a result inside the mask',
                 'operand denotations are read from the operands\' own emitted text (local oracle); constructors are C06\'s subject']
