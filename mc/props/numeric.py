"""C15 (Integer family) and C16 (Decimal family): numeric models evaluated on every numeral of a
bounded-exhaustive candidate set, in every clean context, for every parameter tuple of the bound."""
import itertools

from .. import common
from ..common import V
from ..env import NS

VARIANTS = ['Integer', 'IntegerSigned', 'PositiveInteger', 'NegativeInteger', 'UnsignedInteger']


def ctor(variant, lo, hi, ext=False):
    e = ', is_extensible=True' if ext else ''
    if variant == 'Integer':
        return f"Integer({lo}, {hi}{e})"
    if variant == 'IntegerSigned':
        return f"Integer({lo}, {hi}, include_sign=True{e})"
    return f"{variant}({lo}, {hi}{e})"


def _same_value_forms(run, pid, pairs):
    """each (form, canonical) pair of constructor calls must build the same pattern: integer bounds given as instances of an int
    subclass (what enum.IntEnum members are), keyword spellings, keyword order"""
    n = 0
    for form, canon in pairs:
        n += 1
        out = []
        for src in (form, canon):
            try:
                out.append(('ok', str(_mk(src))))
            except Exception as e:  # noqa: BLE001
                out.append(('raise', type(e).__name__))
        if out[0] != out[1]:
            run.add([V(f'{pid}|argument-form|{form}', f"{form} -> {out[0]!r} but {canon} -> {out[1]!r} (the same arguments in another legal form)",
                       "def out(f):\n    try:\n        return ('ok', str(f()))\n    except Exception as e:\n        return ('raise', type(e).__name__)\n"
                       f"assert out(lambda: {form}) == out(lambda: {canon})")])
    run.count('argument_form_pairs', n)
    return n


def canonical(s):
    return s.isdigit() and s.isascii() and (s == '0' or s[0] != '0')


def ok(s, lo, hi):
    return canonical(s) and lo <= int(s) <= hi


def expected_clean(variant, sign, num, lo, hi):
    """what must be matched for [clean delimiter][sign]num[clean delimiter]; None = no match"""
    if not ok(num, lo, hi):
        return None
    if variant == 'Integer':
        return num
    if variant == 'IntegerSigned':
        return sign + num
    if variant == 'PositiveInteger':
        return None if sign == '-' else sign + num
    if variant == 'NegativeInteger':
        return '-' + num if sign == '-' else None
    if variant == 'UnsignedInteger':
        return num if sign == '' else None
    raise KeyError(variant)


def digit_strings(maxlen):
    out = []
    for l in range(1, maxlen + 1):
        out.extend(''.join(t) for t in itertools.product('0123456789', repeat=l))
    return out


_BIG = {}


def big_text(maxlen, sign):
    key = (maxlen, sign)
    if key not in _BIG:
        parts, pos, spans = [], 0, []
        for s in digit_strings(maxlen):
            tok = sign + s
            spans.append((s, pos, pos + len(tok)))
            parts.append(tok)
            pos += len(tok) + 1
        _BIG[key] = (' '.join(parts), spans)
    return _BIG[key]


def boundary_numerals(lo, hi):
    out = {'0', '00', '01', '007', '09', '000'}
    for v in (lo - 1, lo, lo + 1, hi - 1, hi, hi + 1, (lo + hi) // 2):
        if v >= 0:
            out.add(str(v))
            out.add('0' + str(v))
    for k in range(0, len(str(hi)) + 2):
        for v in (10 ** k - 1, 10 ** k, 10 ** k + 1):
            out.add(str(v))
    for s in (str(lo), str(hi)):
        for i in range(len(s)):
            for d in '0159':
                out.add(s[:i] + d + s[i + 1:])
            out.add(s[:i] + s[i + 1:])
            out.add(s[:i] + '0' + s[i:])
        out.add(s + '0')
        out.add(s + '9')
    out.discard('')
    return sorted(out, key=lambda x: (len(x), x))


def safe(m, s, e, text, variant, lo, hi):
    """safety half: whatever is reported is a canonical in-range numeral and a whole digit run"""
    num = m.lstrip('+-')
    if not ok(num, lo, hi):
        return False
    if variant == 'IntegerSigned' and m[0] in '+-' and s > 0 and text[s - 1].isdigit():
        return False      # documented: a signed numeral cannot match when another digit directly precedes it
    ns = s + (len(m) - len(num))
    if ns > 0 and text[ns - 1].isdigit():
        return False
    if e < len(text) and text[e].isdigit():
        return False
    return True


def _mk(expr):
    return eval(expr, NS)


def _task15_pairs(arg):
    pairs, variants = arg
    viol = []
    cnt = {'patterns': 0, 'numerals_in_context': 0, 'exact_match_calls': 0, 'big_text_passes': 0}
    for lo, hi in pairs:
        maxlen = len(str(hi)) + 1
        for variant in variants:
            expr = ctor(variant, lo, hi)
            try:
                p = _mk(expr)
            except Exception as e:  # noqa: BLE001
                viol.append(V(f'C15|{expr}|raised:{type(e).__name__}', f"{expr} raised {type(e).__name__}", 'p = ' + expr))
                continue
            cnt['patterns'] += 1
            sign = {'Integer': '', 'IntegerSigned': '+', 'PositiveInteger': '+', 'NegativeInteger': '-', 'UnsignedInteger': ''}[variant]
            text, spans = big_text(maxlen, sign)
            want = []
            for num, s, e in spans:
                w = expected_clean(variant, sign, num, lo, hi)
                if w is not None:
                    want.append((w, e - len(w), e))
            got = p.get_matches_and_pos(text)
            cnt['big_text_passes'] += 1
            cnt['numerals_in_context'] += len(spans)
            if got != want:
                ws, gs = set(want), set(got)
                d = sorted(ws ^ gs, key=lambda x: x[1])[0]
                num = d[0].lstrip('+-')
                tok = ' ' + sign + text[d[1] + (len(d[0]) - len(num)):].split(' ')[0].lstrip('+-') + ' '
                # re-derive the numeral the difference sits in
                for n2, s2, e2 in spans:
                    if s2 <= d[1] < e2:
                        tok = ' ' + sign + n2 + ' '
                        num = n2
                        break
                w = expected_clean(variant, sign, num, lo, hi)
                viol.append(V(f'C15|{expr}|space-delimited|{sign}{num}',
                              f"{expr}: in {tok!r} expected {[w] if w else []}, got {p.get_matches(tok)}",
                              f"p = {expr}\nassert p.get_matches({tok!r}) == {[w] if w else []!r}"))
            # the very beginning / end of the text
            for num in boundary_numerals(lo, hi):
                for sg in ('', '+', '-'):
                    w = expected_clean(variant, sg, num, lo, hi)
                    t = sg + num
                    cnt['exact_match_calls'] += 1
                    got = p.get_matches_and_pos(t)
                    exp = [(w, len(t) - len(w), len(t))] if w is not None else []
                    if got != exp:
                        viol.append(V(f'C15|{expr}|whole-text|{t}',
                                      f"{expr}: on the whole text {t!r} expected {exp}, got {got}",
                                      f"p = {expr}\nassert p.get_matches_and_pos({t!r}) == {exp!r}"))
                    if sg == '' or variant in ('IntegerSigned', 'NegativeInteger', 'PositiveInteger'):
                        em = p.is_exact_match(t)
                        exp_em = w == t
                        if em != exp_em:
                            viol.append(V(f'C15|{expr}|is_exact_match|{t}',
                                          f"{expr}: is_exact_match({t!r}) is {em}, expected {exp_em}",
                                          f"p = {expr}\nassert p.is_exact_match({t!r}) == {exp_em}"))
    return viol, cnt


LEFTS_CLEAN = ['', ' ', ',', '(', 'x ', '5 ']
RIGHTS_CLEAN = ['', ' ', ',', ')', ' x', ' 5']
LEFTS_OPEN = ['a', '_', '.', '5', 'a+', 'a-', '5+', '5-', '.+', '_-', '++', '--', '+-']
RIGHTS_OPEN = ['a', '_', '+', '-', '.', '5', '.5']


def _task15_ctx(arg):
    pairs = arg
    viol = []
    cnt = {'context_texts': 0, 'clean_context_texts': 0, 'safety_only_texts': 0, 'extensible_prefix_checks': 0}
    for lo, hi in pairs:
        nums = boundary_numerals(lo, hi)
        if len(nums) > 60:
            nums = nums[:30] + nums[-30:]
        for variant in VARIANTS:
            expr = ctor(variant, lo, hi)
            try:
                p = _mk(expr)
                _mk(ctor(variant, lo, hi, True))
            except Exception as e:  # noqa: BLE001
                viol.append(V(f'C15|{expr}|raised:{type(e).__name__}', f"{expr} (or its extensible form) raised {type(e).__name__}",
                              'p = ' + expr + '\nq = ' + ctor(variant, lo, hi, True)))
                continue
            for num in nums:
                for sg in ('', '+', '-'):
                    w = expected_clean(variant, sg, num, lo, hi)
                    for L in LEFTS_CLEAN:
                        for Rt in RIGHTS_CLEAN:
                            t = L + sg + num + Rt
                            cnt['context_texts'] += 1
                            cnt['clean_context_texts'] += 1
                            got = [g for g in p.get_matches_and_pos(t) if g[1] >= len(L) and g[2] <= len(L + sg + num)]
                            e = len(L + sg + num)
                            exp = [(w, e - len(w), e)] if w is not None else []
                            if got != exp:
                                viol.append(V(f'C15|{expr}|context|{L!r}|{sg}{num}|{Rt!r}',
                                              f"{expr}: in {t!r} expected {exp} for the numeral, got {got}",
                                              f"p = {expr}\ngot = [g for g in p.get_matches_and_pos({t!r}) if g[1] >= {len(L)} and g[2] <= {e}]\nassert got == {exp!r}"))
                    for L in LEFTS_OPEN:
                        for Rt in RIGHTS_CLEAN[:2] + RIGHTS_OPEN:
                            t = L + sg + num + Rt
                            cnt['context_texts'] += 1
                            cnt['safety_only_texts'] += 1
                            for m, s, e in p.get_matches_and_pos(t):
                                if not safe(m, s, e, t, variant, lo, hi):
                                    viol.append(V(f'C15|{expr}|unsafe|{t}',
                                                  f"{expr}: in {t!r} reported {m!r} at {s}:{e}, which is not a whole canonical numeral in range",
                                                  f"from mc.props.numeric import safe\np = {expr}\n"
                                                  f"assert all(safe(m, s, e, {t!r}, {variant!r}, {lo}, {hi}) for m, s, e in p.get_matches_and_pos({t!r}))"))
                                    break
                    for Rt in RIGHTS_OPEN:
                        t = ' ' + sg + num + Rt
                        cnt['context_texts'] += 1
                        cnt['safety_only_texts'] += 1
                        for m, s, e in p.get_matches_and_pos(t):
                            if not safe(m, s, e, t, variant, lo, hi):
                                viol.append(V(f'C15|{expr}|unsafe|{t}',
                                              f"{expr}: in {t!r} reported {m!r} at {s}:{e}, which is not a whole canonical numeral in range",
                                              f"from mc.props.numeric import safe\np = {expr}\n"
                                              f"assert all(safe(m, s, e, {t!r}, {variant!r}, {lo}, {hi}) for m, s, e in p.get_matches_and_pos({t!r}))"))
                                break
            # extensible: prefix + numeral matched in full iff canonical and in range
            sg = {'Integer': '', 'IntegerSigned': '+', 'PositiveInteger': '+', 'NegativeInteger': '-', 'UnsignedInteger': ''}[variant]
            eexpr = ctor(variant, lo, hi, True)
            pe = _mk(eexpr)
            for num in nums:
                for L in ('a', ' ', '5', '12', 'a-', 'a+', '.'):
                    for Rt in ('', ' ', 'a', '5', '.'):
                        t = L + num + Rt
                        cnt['extensible_prefix_checks'] += 1
                        for m, a, b in pe.get_matches_and_pos(t):
                            body = m.lstrip('+-')
                            na = a + len(m) - len(body)
                            if not (ok(body, lo, hi) and (na == 0 or not t[na - 1].isdigit())):
                                viol.append(V(f'C15|{eexpr}|free-text|{t}',
                                              f"{eexpr}: in {t!r} reported {m!r} at {a}:{b}: not a canonical in-range numeral, or directly preceded by a digit",
                                              f"from mc.props.numeric import ok\np = {eexpr}\nt = {t!r}\n"
                                              f"for m, a, b in p.get_matches_and_pos(t):\n    body = m.lstrip('+-')\n    na = a + len(m) - len(body)\n"
                                              f"    assert ok(body, {lo}, {hi}) and (na == 0 or not t[na - 1].isdigit()), (m, a, b)"))
                                break
            # the extensible form imposes nothing on its surroundings: glued between any prefix and suffix, the whole text is matched
            # iff the numeral is canonical and in range
            for prefix, suffix in (('a', ''), ('x-', ''), (' ', ''), ('+', ''), ('a.', ''), ('a', 'kg'), ('x ', '_'), ('#', '.'), ('id', 'kg'), ('=', 'px '), ('a.', 'a')):
                if variant == 'UnsignedInteger' and prefix[-1:] in ('+', '-'):
                    continue
                qsrc = f"Pregex({prefix!r}) + {eexpr} + Pregex({suffix!r})"
                try:
                    q = _mk(qsrc)
                except Exception as e:  # noqa: BLE001
                    viol.append(V(f'C15|{eexpr}|glue|{prefix!r}|{suffix!r}|raised:{type(e).__name__}', f"{qsrc} raised {type(e).__name__}", f"q = {qsrc}"))
                    continue
                nbad = 0
                for num in nums:
                    cnt['extensible_prefix_checks'] += 1
                    t = prefix + sg + num + suffix
                    em, exp = q.is_exact_match(t), ok(num, lo, hi)
                    if em != exp and nbad < 3:
                        nbad += 1
                        viol.append(V(f'C15|{eexpr}|glue|{prefix!r}|{suffix!r}|{num}',
                                      f"({qsrc}).is_exact_match({t!r}) is {em}, expected {exp}",
                                      f"q = {qsrc}\nassert q.is_exact_match({t!r}) == {exp}"))
    return viol, cnt


def boundary_pairs():
    vals = [0, 1, 5, 9, 10, 11, 19, 20, 55, 99, 100, 101, 123, 199, 500, 999, 1000, 1001, 1234, 9999, 10000, 65535, 99999,
            100000, 2147483647, 10 ** 10]
    out = []
    for i, a in enumerate(vals):
        for b in vals[i:]:
            out.append((a, b))
    return out


def run_C15(run):
    thorough = run.tier == 'thorough'
    top = 1100 if thorough else 110
    pairs = [(a, b) for a in range(0, top + 1) for b in range(a, top + 1)]
    if thorough:
        # all pairs up to 130, and a lattice above (every start, ends at a stride that hits every digit length)
        pairs = [(a, b) for (a, b) in pairs if b <= 130 or (a % 7 == 0 and b % 11 == 0) or a == b or b - a < 3
                 or a in (0, 1, 9, 10, 99, 100, 999, 1000) or b in (99, 100, 999, 1000, 1100)]
    all_pairs = pairs
    tasks = [(c, ['Integer']) for c in common.chunks(all_pairs, 40)]
    sub = [p for i, p in enumerate(all_pairs) if i % (5 if thorough else 9) == 0]
    tasks += [(c, VARIANTS[1:]) for c in common.chunks(sub, 20)]
    tot = {}
    for viol, cnt in common.pmap(_task15_pairs, tasks):
        run.add(viol)
        for k, v in cnt.items():
            tot[k] = tot.get(k, 0) + v
    bp = boundary_pairs()
    if not thorough:
        bp = [p for i, p in enumerate(bp) if i % 3 == 0 or p[1] < 200]
    bp += [(0, 2147483647)]
    for viol, cnt in common.pmap(_task15_ctx, common.chunks(bp, 3)):
        run.add(viol)
        for k, v in cnt.items():
            tot[k] = tot.get(k, 0) + v
    # invalid parameters
    n_inv = 0
    for variant in VARIANTS:
        for lo, hi, exc in ((-1, 5, 'InvalidArgumentValueException'), (6, 5, 'InvalidArgumentValueException'),
                            ('1', 5, 'InvalidArgumentTypeException'), (1, 5.0, 'InvalidArgumentTypeException'),
                            (None, 5, 'InvalidArgumentTypeException'), (1, None, 'InvalidArgumentTypeException')):
            expr = ctor(variant, repr(lo), repr(hi))
            n_inv += 1
            try:
                _mk(expr)
                got = 'returned'
            except Exception as e:  # noqa: BLE001
                got = type(e).__name__
            if got != exc:
                run.add([V(f'C15|{expr}|invalid', f"{expr} -> {got}, expected {exc}",
                           f"try:\n    {expr}\nexcept {exc}:\n    pass\nelse:\n    raise AssertionError")])
    pairs = []
    for variant in VARIANTS:
        cls_ = 'Integer' if variant.startswith('Integer') else variant
        sg = ', include_sign=True' if variant == 'IntegerSigned' else ''
        for ext in (False, True):
            canon = ctor(variant, 5, 123, ext)
            pairs += [(ctor(variant, 'IntSub(5)', 123, ext), canon), (ctor(variant, 5, 'IntSub(123)', ext), canon), (ctor(variant, 'IntSub(5)', 'IntSub(123)', ext), canon),
                      (f"{cls_}(start=5, end=123{sg}, is_extensible={ext})", canon), (f"{cls_}(end=123, start=5{sg}, is_extensible={ext})", canon),
                      (f"{cls_}(5, end=IntSub(123){sg}, is_extensible={ext})", canon)]
            pairs += [(ctor(variant, 'IntSub(0)', 'IntSub(9)', ext), ctor(variant, 0, 9, ext))]
    _same_value_forms(run, 'C15', pairs)
    run.merge_counts(tot)
    run.count('invalid_parameter_calls', n_inv)
    run.sample({'pattern': ctor('Integer', 5, 123), 'numerals': boundary_numerals(5, 123)[:12], 'clean_left': LEFTS_CLEAN, 'clean_right': RIGHTS_CLEAN})
    run.sample({'pattern': ctor('NegativeInteger', 0, 20), 'text': ' -7 ', 'expected': ['-7']})
    n = tot['numerals_in_context'] + tot['context_texts'] + tot['exact_match_calls'] + tot['extensible_prefix_checks']
    cov = {
        'states': tot['patterns'] + len(bp) * len(VARIANTS) * 2,
        'transitions': n,
        'traces_validated_against_impl': n,
        'evaluations': n, 'distinct_nontrivial': tot['patterns'],
        'rule': f'all 0 <= start <= end <= {top}' + (' (complete to 130, lattice above)' if thorough else '') +
                ' x every digit string of length <= len(end)+1 between spaces, boundary numerals as whole text in 3 sign contexts; '
                'boundary parameter pairs x boundary numerals x (clean contexts: both directions; open contexts: safety half) x 5 sign variants; '
                'extensible form through prefix + numeral',
        'exhaustive': True,
        'bounds': {'parameter_top': top, 'boundary_pairs': len(bp), 'clean_left': LEFTS_CLEAN, 'clean_right': RIGHTS_CLEAN,
                   'open_left': LEFTS_OPEN, 'open_right': RIGHTS_OPEN},
    }
    return cov, ['numerals glued to letters, underscores, dots or to signs that follow another character are only checked for safety '
                 '(whatever is reported must be a whole canonical in-range numeral), as the documentation leaves them open']


# ----------------------------------------------------------------------------------
# C16
# ----------------------------------------------------------------------------------
DVARIANTS = ['Decimal', 'DecimalSigned', 'PositiveDecimal', 'NegativeDecimal', 'UnsignedDecimal']


def dctor(variant, lo, hi, mn, mx, ext=False):
    e = ', is_extensible=True' if ext else ''
    if variant == 'Decimal':
        return f"Decimal({lo}, {hi}, {mn}, {mx}{e})"
    if variant == 'DecimalSigned':
        return f"Decimal({lo}, {hi}, {mn}, {mx}, include_sign=True{e})"
    return f"{variant}({lo}, {hi}, {mn}, {mx}{e})"


def dexpected(variant, sign, ip, frac, lo, hi, mn, mx):
    """expected matched text for [clean][sign][ip].[frac][clean], or None; 'open' if left open"""
    if not (frac.isdigit() and len(frac) >= mn and (mx is None or len(frac) <= mx)):
        return None
    if ip == '':
        if lo != 0:
            return None
        body = '.' + frac
    else:
        if not ok(ip, lo, hi):
            return None
        body = ip + '.' + frac
    if variant == 'Decimal':
        return body
    if variant == 'DecimalSigned':
        return sign + body
    if variant == 'PositiveDecimal':
        if sign == '-':
            return None if ip else 'open'
        return sign + body
    if variant == 'NegativeDecimal':
        return '-' + body if sign == '-' else None
    if variant == 'UnsignedDecimal':
        return body if sign == '' else None
    raise KeyError(variant)


def _task16(arg):
    params = arg
    viol = []
    cnt = {'patterns': 0, 'candidates': 0, 'exact_match_calls': 0}
    for lo, hi, mn, mx in params:
        ips = [''] + [n for n in boundary_numerals(lo, hi) if len(n) <= len(str(hi)) + 1][:40]
        top = (mx if mx is not None else mn + 2) + 2
        fracs = ['']
        for l in range(1, top + 1):
            fracs += ['5' * l, '0' * l]
            if l > 1:
                fracs += ['0' + '5' * (l - 1), '5' * (l - 1) + '0']
        for variant in DVARIANTS:
            expr = dctor(variant, lo, hi, mn, mx)
            try:
                p = _mk(expr)
            except Exception as e:  # noqa: BLE001
                viol.append(V(f'C16|{expr}|raised:{type(e).__name__}', f"{expr} raised {type(e).__name__}", 'p = ' + expr))
                continue
            cnt['patterns'] += 1
            bad = 0
            for ip in ips:
                for frac in fracs:
                    for sg in ('', '+', '-'):
                        w = dexpected(variant, sg, ip, frac, lo, hi, mn, mx)
                        if w == 'open':
                            continue
                        cand = sg + ip + '.' + frac
                        for L, Rt in (('', ''), (' ', ' '), ('x ', ''), ('', ' y')):
                            t = L + cand + Rt
                            cnt['candidates'] += 1
                            e = len(L + cand)
                            got = [g for g in p.get_matches_and_pos(t) if g[1] >= len(L) and g[2] <= e and '.' in g[0]]
                            exp = [(w, e - len(w), e)] if w is not None else []
                            if got != exp and bad < 6:
                                bad += 1
                                viol.append(V(f'C16|{expr}|{t!r}',
                                              f"{expr}: in {t!r} expected {exp}, got {got}",
                                              f"p = {expr}\ngot = [g for g in p.get_matches_and_pos({t!r}) if g[1] >= {len(L)} and g[2] <= {e} and '.' in g[0]]\nassert got == {exp!r}"))
                        cnt['exact_match_calls'] += 1
                        em, exp_em = p.is_exact_match(cand), (w == cand)
                        if em != exp_em and bad < 6:
                            bad += 1
                            viol.append(V(f'C16|{expr}|is_exact_match|{cand}', f"{expr}: is_exact_match({cand!r}) is {em}, expected {exp_em}",
                                          f"p = {expr}\nassert p.is_exact_match({cand!r}) == {exp_em}"))
            # extensible form in free text: whatever is reported is never directly preceded by a digit (documented
            # persistent assertion) and is itself a valid decimal of this variant
            try:
                pe = _mk(dctor(variant, lo, hi, mn, mx, True))
            except Exception as e:  # noqa: BLE001
                viol.append(V(f'C16|{expr}|extensible|raised:{type(e).__name__}', f"{dctor(variant, lo, hi, mn, mx, True)} raised {type(e).__name__}",
                              'p = ' + dctor(variant, lo, hi, mn, mx, True)))
                continue
            for ip in ips:
                for frac in fracs[:7]:
                    for L in ('', ' ', 'a', '5', '12', '-', '+', ' -', 'a+', 'x.-'):     # (a sign directly after a digit is a digit prefix: outside what C15/C16 state for the extensible forms)
                        t = L + ip + '.' + frac + ' '
                        cnt['candidates'] += 1
                        for m, a, b in pe.get_matches_and_pos(t):
                            body = m.lstrip('+-')
                            bi, _, bf = body.partition('.')
                            okm = (a == 0 or not t[a - 1].isdigit()) and (bi == '' and lo == 0 or ok(bi, lo, hi)) \
                                and bf.isdigit() and len(bf) >= mn and (mx is None or len(bf) <= mx)
                            if not okm and bad < 8:
                                bad += 1
                                viol.append(V(f'C16|{expr}|extensible-free|{t}',
                                              f"{dctor(variant, lo, hi, mn, mx, True)}: in {t!r} reported {m!r} at {a}:{b} (preceded by {t[a - 1:a]!r})",
                                              f"p = {dctor(variant, lo, hi, mn, mx, True)}\nt = {t!r}\n"
                                              f"assert all(a == 0 or not t[a - 1].isdigit() for m, a, b in p.get_matches_and_pos(t))"))
            # documented for include_sign=True: a signed decimal cannot match when another digit directly precedes the sign
            if variant in ('DecimalSigned', 'PositiveDecimal', 'NegativeDecimal'):
                for ip in ips[:8]:
                    for frac in fracs[1:4]:
                        for sg2 in '+-':
                            for L in ('5', '1.1', '12'):
                                t = L + sg2 + ip + '.' + frac
                                cnt['candidates'] += 1
                                for m, a, b in p.get_matches_and_pos(t):
                                    if m[0] in '+-' and a > 0 and t[a - 1].isdigit() and bad < 8:
                                        bad += 1
                                        viol.append(V(f'C16|{expr}|sign-after-digit|{t}', f"{expr}: in {t!r} reported the signed {m!r} although a digit directly precedes the sign",
                                                      f"p = {expr}\nt = {t!r}\nassert not any(m[0] in '+-' and a > 0 and t[a - 1].isdigit() for m, a, b in p.get_matches_and_pos(t))"))
            # extensible with a prefix
            sg = {'Decimal': '', 'DecimalSigned': '+', 'PositiveDecimal': '+', 'NegativeDecimal': '-', 'UnsignedDecimal': ''}[variant]
            for prefix, suffix in (('a', ''), ('a', 'kg'), ('w=', 'kg'), ('#', '_'), ('x', ' ')):
                qsrc = f"Pregex({prefix!r}) + {dctor(variant, lo, hi, mn, mx, True)} + Pregex({suffix!r})"
                try:
                    q = _mk(qsrc)
                except Exception as e:  # noqa: BLE001
                    viol.append(V(f'C16|{expr}|extensible|{prefix!r}|{suffix!r}|raised:{type(e).__name__}', f"{qsrc} raised {type(e).__name__}", f"q = {qsrc}"))
                    continue
                for ip in ips[1:]:
                    for frac in fracs:
                        t = prefix + sg + ip + '.' + frac + suffix
                        cnt['exact_match_calls'] += 1
                        exp = ok(ip, lo, hi) and len(frac) >= mn and (mx is None or len(frac) <= mx)
                        if q.is_exact_match(t) != exp and bad < 8:
                            bad += 1
                            viol.append(V(f'C16|{expr}|extensible|{t}', f"({qsrc}).is_exact_match({t!r}) is {not exp}",
                                          f"q = {qsrc}\nassert q.is_exact_match({t!r}) == {exp}"))
    return viol, cnt


def run_C16(run):
    thorough = run.tier == 'thorough'
    ranges = [(0, 9), (0, 2147483647), (1, 9), (5, 123), (0, 0), (10, 99), (100, 100), (7, 7), (99, 1000), (0, 100)]
    if thorough:
        ranges += [(a, b) for a in (0, 1, 2, 9, 10, 11, 50) for b in (9, 10, 19, 99, 100, 150, 999) if a <= b]
    bounds = [(mn, mx) for mn in (1, 2, 3) for mx in (1, 2, 3, None) if mx is None or mn <= mx]
    params = [(lo, hi, mn, mx) for lo, hi in ranges for mn, mx in bounds]
    tot = {}
    for viol, cnt in common.pmap(_task16, common.chunks(params, 2)):
        run.add(viol)
        for k, v in cnt.items():
            tot[k] = tot.get(k, 0) + v
    n_inv = 0
    for variant in DVARIANTS:
        for mn, mx, exc in ((0, 2, 'InvalidArgumentValueException'), (-1, 2, 'InvalidArgumentValueException'),
                            (3, 2, 'InvalidArgumentValueException'), (True, 2, 'InvalidArgumentTypeException'),
                            ('1', 2, 'InvalidArgumentTypeException'), (1, '2', 'InvalidArgumentTypeException'),
                            (1, True, 'InvalidArgumentTypeException'), (1.0, 2, 'InvalidArgumentTypeException'),
                            (None, 2, 'InvalidArgumentTypeException')):
            expr = dctor(variant, 0, 9, repr(mn), repr(mx))
            n_inv += 1
            try:
                _mk(expr)
                got = 'returned'
            except Exception as e:  # noqa: BLE001
                got = type(e).__name__
            if got != exc:
                run.add([V(f'C16|{expr}|invalid', f"{expr} -> {got}, expected {exc}",
                           f"try:\n    {expr}\nexcept {exc}:\n    pass\nelse:\n    raise AssertionError")])
        for lo, hi, exc in ((-1, 5, 'InvalidArgumentValueException'), (6, 5, 'InvalidArgumentValueException'),
                            ('1', 5, 'InvalidArgumentTypeException')):
            expr = dctor(variant, repr(lo), repr(hi), 1, 2)
            n_inv += 1
            try:
                _mk(expr)
                got = 'returned'
            except Exception as e:  # noqa: BLE001
                got = type(e).__name__
            if got != exc:
                run.add([V(f'C16|{expr}|invalid', f"{expr} -> {got}, expected {exc}",
                           f"try:\n    {expr}\nexcept {exc}:\n    pass\nelse:\n    raise AssertionError")])
    pairs = []
    for variant in DVARIANTS:
        cls_ = 'Decimal' if variant.startswith('Decimal') else variant
        sg = ', include_sign=True' if variant == 'DecimalSigned' else ''
        for ext in (False, True):
            canon = dctor(variant, 5, 123, 1, 2, ext)
            for a in itertools.product((0, 1), repeat=4):
                if any(a):
                    args = [('IntSub(%d)' % v) if f else v for f, v in zip(a, (5, 123, 1, 2))]
                    pairs.append((dctor(variant, *args, ext), canon))
            pairs += [(f"{cls_}(start=5, end=123, min_decimal=1, max_decimal=2{sg}, is_extensible={ext})", canon),
                      (f"{cls_}(max_decimal=IntSub(2), min_decimal=1, end=123, start=5{sg}, is_extensible={ext})", canon),
                      (dctor(variant, 0, 9, 'IntSub(2)', None, ext), dctor(variant, 0, 9, 2, None, ext))]
    _same_value_forms(run, 'C16', pairs)
    run.merge_counts(tot)
    run.count('invalid_parameter_calls', n_inv)
    run.sample({'pattern': dctor('Decimal', 5, 123, 1, 2), 'candidates': ['5.5', '05.5', '4.5', '123.55', '123.555', '.5', '5.']})
    n = tot['candidates'] + tot['exact_match_calls']
    cov = {
        'states': tot['patterns'], 'transitions': n, 'traces_validated_against_impl': n, 'evaluations': n,
        'distinct_nontrivial': tot['patterns'],
        'rule': 'ranges x fraction bounds {1,2,3} x {1,2,3,None} x 5 sign variants; candidates: integer part in {none, boundary numerals incl. '
                'leading-zero forms} x fraction strings of every length 0..max+2 x 3 signs x 4 clean contexts, plus is_exact_match and prefix + extensible',
        'exhaustive': True, 'bounds': {'ranges': len(ranges), 'fraction_bounds': bounds},
    }
    return cov, ['fraction digits are \\d: only their number matters, strings over {0,5} are used',
                 'a sign in front of a decimal without integer part is only asserted when it is the variant\'s own sign']
