"""Expression lists for the history differential (common.history_differential): per property, the
constructor calls whose value must not depend on what else was built before in the same process."""
import itertools

from .. import alphabet as al


def _lits(n=None):
    ls = [s for s in al.CURATED + al.CORE_LITERALS if s]
    ls = list(dict.fromkeys(ls))
    return ls[:n] if n else ls


RAW = al.CLASS_ATOMS + al.TOKEN_ATOMS + al.ASSERT_ATOMS + al.TYPED_ATOMS + [
    "MatchAtStart(Pregex())", "MatchAtLineStart(Pregex())", "MatchAtLineEnd(Pregex())", "MatchAtEnd(Pregex())",
    "FollowedBy(Pregex(), 'b')", "MatchAtLineEnd('US')", "MatchAtLineEnd('a')", "MatchAtStart('a')", "AnyLowercaseLetter()",
    "AnyDigit()", "AnyWordChar(is_global=True)", "AnyWhitespace()", "Capture('ab')", "Group('ab')", "Either('a', 'b')",
    "Optional('a')", "Backreference(1)", "Pregex('a').exactly(2)", "Any()"]


def _literal_forms():
    out = []
    for s in _lits():
        out += [f"Pregex({s!r})", f"Optional({s!r})", f"OneOrMore({s!r})", f"Exactly({s!r}, 2)", f"Pregex({s!r}) + 'k'",
                f"Either({s!r}, 'k') + 'k'"]
    return out


def _interleave(a, b):
    out = []
    for x, y in itertools.zip_longest(a, b):
        if x is not None:
            out.append(x)
        if y is not None:
            out.append(y)
    return out


def exprs_for(pid, tier):
    if pid in ('C01', 'C04', 'C09', 'C02', 'C05', 'C08'):
        lits = _literal_forms()
        raw = RAW * (len(lits) // len(RAW) // 4 + 1)
        ex = _interleave(lits, raw)
        if pid == 'C09':
            ex += [f"OneOrMore({a})" for a in RAW] + [f"Indefinite(MatchAtStart({s!r}))" for s in _lits(20)]
        if pid == 'C08':
            ex += [f"Capture({a})" for a in RAW] + [f"Group({a}, True)" for a in RAW] + [f"Group(Capture({a}, 'n'))" for a in RAW]
        return ex
    if pid == 'C03':
        from . import apisurf
        out = []
        for label, tmpl, domains in apisurf.callables():
            if domains is None or 'print_pattern' in label:
                continue
            combos = list(itertools.product(*domains))
            for combo in combos[:: max(1, len(combos) // 40)]:
                out.append(tmpl.format(*[c[0] for c in combo]))
        return out
    if pid in ('C06', 'C07'):
        from . import cls
        reg, neg, other, core = cls.c07_atoms(tier)
        cc = [c for c in core if c.startswith('Any')]
        ex = reg + neg + [f"({a}) {op} ({b})" for a in cc for b in cc for op in '|-'] + [f"~({c})" for c in reg + neg]
        ex += ["AnyBetween('-', '9') | ','", "AnyBetween('-', '9')", "AnyBetween('+', '-') | '.'", "AnyBetween('+', '-')",
               "AnyBetween('a', 'c') | 'd'", "AnyBetween('a', 'c')", "AnyFrom('a', 'b') - 'a'", "AnyFrom('a', 'b')"]
        if pid == 'C06':
            ex += [f"AnyFrom({a!r}, {b!r})" for a in cls.ALPHA16 for b in cls.ALPHA16] + [f"AnyBetween({a!r}, {b!r})" for a in '!$-\\a' for b in '/]z~']
        return ex
    if pid == 'C10':
        ys = ["'a'", "'ab'", "Optional('a')", "Either('a', 'bc')", "Either('ab', 'cd')", "AnyFrom('+', '-')", "OneOrMore('a')", "Exactly('ab', 2)",
              "AtMost('a', 2)", "'a?'", "Indefinite(AnyDigit())", "FollowedBy('a', Optional('b'))", "Pregex('a') + Optional('b')", "AnyDigit()",
              "Capture(Optional('a'))", "Group(Either('a', 'bb'))", "NotFollowedBy('a', 'b')"]
        ex = []
        for y in ys:
            for c in ('PrecededBy', 'NotPrecededBy', 'EnclosedBy', 'NotEnclosedBy'):
                ex.append(f"{c}('x', {y})")
                ex.append(f"{c}(Backreference('n'), {y})")
            ex.append(f"Pregex('x').preceded_by({y})")
            ex.append(f"Pregex('x').not_enclosed_by({y})")
        return ex
    if pid == 'C15':
        from . import numeric as nm
        ex = []
        for lo, hi in nm.boundary_pairs()[:: 1 if tier == 'thorough' else 3] + [(5, 95), (5, 950), (1, 5000), (0, 999), (0, 1099)]:
            for v in nm.VARIANTS:
                ex.append(nm.ctor(v, lo, hi))
                ex.append(nm.ctor(v, lo, hi, True))
        ex += ["Integer()", "Integer(include_sign=True)", "PositiveInteger()", "Integer(-1, 5)", "Integer(6, 5)", "Integer('1', 5)", "Integer(1, 5.0)"]
        return ex
    if pid == 'C16':
        from . import numeric as nm
        ex = []
        for lo, hi in [(0, 9), (0, 2147483647), (1, 9), (5, 123), (0, 0), (10, 99), (0, 100), (5, 0)]:
            for mn, mx in [(1, 1), (1, 2), (2, 2), (1, None), (3, None), (2, 3), (3, 2), (0, 1)]:
                for v in nm.DVARIANTS:
                    ex.append(nm.dctor(v, lo, hi, mn, mx))
                    ex.append(nm.dctor(v, lo, hi, mn, mx, True))
        ex += ["Decimal()", "Decimal(end=0)", "Decimal(0, 0)", "PositiveDecimal(end=0)", "Decimal(min_decimal=2.0)", "Decimal(max_decimal=True)"]
        return ex
    if pid == 'C17':
        ex = []
        for base in range(16, 1, -1):
            for lo, hi in ((1, None), (0, 2), (2, 2), (1, 3)):
                ex.append(f"Numeral({base}, {lo}, {hi})")
                ex.append(f"Numeral({base}, {lo}, {hi}, is_extensible=True)")
        ex += ["IPv6()", "Numeral(11)", "Numeral(15)", "Numeral(12, 1, 2)"]
        for lo, hi in ((1, None), (2, None), (1, 3), (2, 2), (3, 5)):
            for gl in (True, False):
                ex.append(f"Word({lo}, {hi}, is_global={gl})")
                ex.append(f"Word({lo}, {hi}, is_global={gl}, is_extensible=True)")
        ex += ["Word(2.0)", "Word(1, 3.0)", "Word(2)", "Word(1, 3)", "Word(True)", "Word('2')", "Word(0)", "Word(3, 2)", "Numeral(2.0)", "Numeral('10')",
               "Numeral(10, 1.0)", "Numeral(10, 1, 2.0)", "Numeral(10, True)", "Numeral(17)"]
        for a in ("'ab'", "['a', 'b.c']", "'a|b'", "['x', 'x']", "1", "['a', 1]"):
            for c in ('WordContains', 'WordStartsWith', 'WordEndsWith'):
                for gl in (True, False):
                    ex.append(f"{c}({a}, is_global={gl})")
        return ex
    if pid == 'C18':
        return ["IPv4()", "IPv4(True)", "IPv6()", "IPv6(True)", "Numeral(16, 1, 4)", "Numeral(16, 1, 4, is_extensible=True)", "Numeral(10)",
                "AnyDigit() - '0'", "AnyBetween('0', '4') | '5'", "IPv4()", "IPv6()"]
    if pid == 'C19':
        from . import lang
        fmts = lang.all_formats()
        ex = [f"Date({f!r})" for f in fmts] + [f"Date({f!r}, is_extensible=True)" for f in fmts[::3]]
        pairs = [(f, g) for f in fmts[::5] for g in fmts[::7] if f != g]
        ex += [f"Date([{f!r}, {g!r}])" for f, g in pairs] + [f"Date([{g!r}, {f!r}])" for f, g in pairs[::2]]
        ex += ["Date()", "Date(['dd/mm/yyyy', 'dd/mm/yyyy'])", "Date(['d/m/yy', 'dd/mm/yyyy'])", "Date(['dd/mm/yyyy', 'd/m/yy'])",
               "Date(['dd/mm/yyyy', 'mm/dd/yyyy'])", "Date(['d/m/yy', 'd/m/yyyy'], is_extensible=True)", "Date(['d/m/yyyy', 'd/m/yy'], is_extensible=True)",
               "Date('DD/MM/YYYY')", "Date(5)", "Date(['dd/mm/yyyy', None])", "Date([[]])"]
        return ex
    if pid == 'C20':
        out = []
        for p in ('C01', 'C03', 'C07', 'C10', 'C15', 'C16', 'C17', 'C19'):
            e = exprs_for(p, tier)
            out += e[:: max(1, len(e) // 600)]
        return out
    return []
