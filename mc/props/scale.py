"""Scaled instances.  The engines explore small instances exhaustively; a slip that only shows once a size crosses a threshold
(a count, bound, group number or position with two or three digits, more than nine groups or operands, deep nesting, long
literals / texts / names, many matches, many-digit numbers, a file larger than a buffer) would stay outside every bound.
For each property this module runs a fixed family of *large* instances whose expected value is computed structurally
(reference composition, `re` itself, arithmetic), one assertion per case.  Every case is a self-contained snippet."""
import traceback

from .. import rx
from ..common import V
from ..env import NS

H = "from mc import rx\ndef eq(a, b):\n    v = rx.equiv(str(a), b)\n    assert v[0] in ('tree', 'texts'), (str(a), b, v)\n"


def _q_cases():
    out = []
    for x, X in (("'a'", 'a'), ("'ab'", '(?:ab)'), ("Either('a', 'b')", '(?:a|b)'), ("AnyDigit()", '\\d'), ("Capture('a')", '(a)'), ("Pregex('}')", '\\}')):
        for n in (10, 11, 12, 99, 100, 101, 1000):
            out.append((f"Exactly({x}, {n})", f"eq(Exactly({x}, {n}), {X + '{%d}' % n!r})\neq(Pregex({x}).exactly({n}) if isinstance({x}, str) else ({x}).exactly({n}), {X + '{%d}' % n!r})\n"
                        f"eq(({x} if not isinstance({x}, str) else Pregex({x})) * {n}, {X + '{%d}' % n!r})\neq(AtLeast({x}, {n}), {X + '{%d,}' % n!r})\n"
                        f"eq(AtMost({x}, {n}, False), {X + '{,%d}?' % n!r})"))
        for n, m in ((9, 10), (10, 10), (10, 11), (2, 100), (99, 100), (100, 1000), (0, 10), (10, None)):
            ref = X + ('{%d}' % n if n == m else '{%d,%s}' % (n, '' if m is None else m))
            out.append((f"AtLeastAtMost({x}, {n}, {m})", f"eq(AtLeastAtMost({x}, {n}, {m}), {ref!r})\neq(AtLeastAtMost({x}, {n}, {m}, False), {ref + ('' if n == m else '?')!r})"))
        for n, m in ((10, 9), (100, 99), (11, 2), (1000, 999)):
            out.append((f"AtLeastAtMost({x}, {n}, {m}) inverted",
                        f"try:\n    r = AtLeastAtMost({x}, {n}, {m})\nexcept InvalidArgumentValueException:\n    pass\nelse:\n    raise AssertionError(str(r))"))
    # counting on the real object
    out.append(("counting 10..12", "p = AtLeastAtMost('ab', 10, 12)\nfor k in range(0, 15):\n    assert p.is_exact_match('ab' * k) == (10 <= k <= 12), k\n"
                "p = Exactly(AnyDigit(), 11)\nfor k in range(8, 14):\n    assert p.is_exact_match('7' * k) == (k == 11), k\n"
                "import re\nm = re.compile(str(AtLeastAtMost('a', 2, 100, False)), 24).match('a' * 120)\nassert m.end() == 2\n"
                "m = re.compile(str(AtLeastAtMost('a', 2, 100)), 24).match('a' * 120)\nassert m.end() == 100"))
    return out


def _many_groups():
    return [
        ("twelve captures", "p = Concat(*[Capture(c) for c in 'abcdefghijkl'])\nimport re\nassert re.compile(str(p)).groups == 12\n"
                            "assert p.get_captures('abcdefghijkl') == [tuple('abcdefghijkl')]\n"
                            "assert p.get_captures_and_pos('xabcdefghijkl')[0][10] == ('k', 11, 12)\n"
                            "q = p + Backreference(11) + Backreference(10) + Backreference(12)\nassert q.is_exact_match('abcdefghijklkjl')\nassert not q.is_exact_match('abcdefghijklajl')"),
        ("twelve named captures", "names = ['g%d' % i for i in range(12)]\np = Concat(*[Capture(AnyLetter(), n) for n in names])\n"
                                  "d = p.get_named_captures('abcdefghijkl')[0]\nassert d == {('g%d' % i): 'abcdefghijkl'[i] for i in range(12)}, d\n"
                                  "pos = p.get_named_captures_and_pos('..abcdefghijkl', relative_to_match=True)[0]\nassert pos['g10'] == ('k', 10, 11) and pos['g11'] == ('l', 11, 12), pos\n"
                                  "assert (p + Backreference('g10')).is_exact_match('abcdefghijklk')"),
        ("capture of the eleventh group", "inner = Concat(*[Capture(c) for c in 'abcdefghij'])\np = inner + Capture(Capture('k'), 'x')\nimport re\nc = re.compile(str(p))\n"
                                          "assert c.groups == 11 and c.groupindex == {'x': 11}, (c.groups, dict(c.groupindex))\n"
                                          "g = Group(p)\nassert re.compile(str(g)).groups == 11\nassert re.compile(str(Capture(p))).groups == 12"),
        ("conditional on a two-digit-length name / tenth group", "p = Concat(*[Capture(c) for c in 'abcdefghi']) + Optional(Capture('j', 'tenth_group_')) + Conditional('tenth_group_', 'y', 'n')\n"
                                                                 "assert p.is_exact_match('abcdefghijy') and p.is_exact_match('abcdefghin') and not p.is_exact_match('abcdefghijn')"),
        ("split_by_capture with twelve captures", "p = Concat(*[Capture(c) + '-' for c in 'abcdefghijkl'])\nt = 'a-b-c-d-e-f-g-h-i-j-k-l-'\nps = p.split_by_capture(t)\nassert ps == [''] + ['-'] * 12, ps"),
    ]


def _nary():
    ops = "['a', 'b|c', AnyDigit(), 'd', Optional('e'), 'f', Capture('g'), 'h', 'i.j', 'k', Either('l', 'm'), 'n']"
    return [
        ("Concat of twelve", f"ops = {ops}\nr = Concat(*ops)\nc = Pregex(ops[0])\nfor o in ops[1:]:\n    c = c + o\neq(r, str(c))\n"
                             "eq(r, 'a(?:b\\\\|c)\\\\dd(?:e?)f(g)h(?:i\\\\.j)k(?:l|m)n')"),
        ("Either of twelve", f"ops = {ops}\nr = Either(*ops)\nc = Pregex(ops[0])\nfor o in ops[1:]:\n    c = c.either(o)\neq(r, str(c))\n"
                             "for t in ('a', 'b|c', '7', 'e', '', 'g', 'i.j', 'm', 'n'):\n    assert r.is_exact_match(t), t\nassert not r.is_exact_match('ij') and not r.is_exact_match('an')"),
        ("Enclose with eleven enclosing patterns", "encl = ['%d' % i for i in range(11)]\nr = Enclose('x', *encl)\nc = Pregex('x')\nfor e in encl:\n    c = c.enclose(e)\neq(r, str(c))\n"
                                                   "assert r.is_exact_match('109876543210x012345678910')"),
        ("empties beyond the ninth position", "ops = ['a', 'b', 'c', 'd', 'e', 'f', 'g', 'h', 'i', Pregex(), 'j', '', 'k', Concat()]\nkept = [o for o in ops if not (isinstance(o, str) and o == '') and str(o) != '']\n"
                                              "eq(Concat(*ops), str(Concat(*kept)))\neq(Either(*ops), str(Either(*kept)))\neq(Enclose(*ops), str(Enclose(*kept)))"),
        ("twenty and forty operands", "import string\nfor n in (17, 20, 33, 40):\n    ops = [string.ascii_letters[i] * (1 + i % 3) for i in range(n)]\n    ops[9] = 'x|y'; ops[-1] = 'end.'; ops[16] = AnyDigit()\n"
                                       "    e = Either(*ops)\n    for o in ops:\n        t = '5' if not isinstance(o, str) else o\n        assert e.is_exact_match(t), (n, t)\n    assert not e.is_exact_match('endx') and not e.is_exact_match('x') and str(e).count('|') == n\n"
                                       "    c = Concat(*ops)\n    assert c.is_exact_match(''.join('5' if not isinstance(o, str) else o for o in ops)), n\n"
                                       "    withempty = list(ops)\n    withempty.insert(n - 2, ''); withempty.insert(12, Pregex())\n    eq(Either(*withempty), str(e))\n    eq(Concat(*withempty), str(c))\n"
                                       "    allstr = [o if isinstance(o, str) else 'd' for o in ops]\n    w = list(allstr); w.insert(n - 1, '')\n    eq(Either(*w), str(Either(*allstr)))"),
        ("eleven assertions", "asserts = [chr(ord('a') + i) for i in range(11)]\nr = FollowedBy('x', *asserts)\nassert str(r).count('(?=') == 11\n"
                              "r2 = NotFollowedBy('x', *asserts)\nassert r2.is_exact_match('x') and r2.get_matches('xk xz') == ['x'] and r2.get_matches('xl') == ['x']\n"
                              "r3 = NotPrecededBy('x', *asserts)\nassert r3.get_matches('kx lx') == ['x']\n"
                              "try:\n    PrecededBy('x', *(asserts + [Optional('z')]))\nexcept NonFixedWidthPatternException:\n    pass\nelse:\n    raise AssertionError('twelfth assertion not checked')\n"
                              "try:\n    NotFollowedBy('x', *(asserts + [Pregex()]))\nexcept EmptyNegativeAssertionException:\n    pass\nelse:\n    raise AssertionError('empty twelfth assertion accepted')"),
    ]


def _deep():
    return [
        ("nesting of depth eight", "p = Pregex('a')\nref = 'a'\nsteps = [(lambda x: x + 'b', lambda r: '(?:' + r + ')b'), (lambda x: Either(x, 'c'), lambda r: '(?:' + r + ')|c'),\n"
                                   "         (lambda x: Optional(x), lambda r: '(?:' + r + ')?'), (lambda x: Capture(x), lambda r: '(' + r + ')'), (lambda x: x + Either('d', 'e'), lambda r: '(?:' + r + ')(?:d|e)'),\n"
                                   "         (lambda x: OneOrMore(x, False), lambda r: '(?:' + r + ')+?'), (lambda x: Group(x), lambda r: '(?:' + r + ')'),\n"
                                   "         (lambda x: 'q' + x, lambda r: 'q(?:' + r + ')'), (lambda x: x.exactly(12), lambda r: '(?:' + r + '){12}'), (lambda x: Capture(x, 'n'), lambda r: '(?P<n>' + r + ')'),\n"
                                   "         (lambda x: FollowedBy(x, 'z'), lambda r: '(?:' + r + ')(?=z)'), (lambda x: NotPrecededBy(x, 'yy'), lambda r: '(?<!yy)(?:' + r + ')')]\n"
                                   "for f, g in steps:\n    p, ref = f(p), g(ref)\n    eq(p, ref)"),
        ("twelve nested groups", "p = Pregex('a')\nfor i in range(12):\n    p = Capture(p + 'b') if i % 2 else Group(Either(p, 'c'))\nimport re\nassert re.compile(str(p)).groups == 6\n"
                                 "r = 'a'\nfor i in range(12):\n    r = ('((?:' + r + ')b)') if i % 2 else ('(?:(?:' + r + ')|c)')\neq(p, r)"),
    ]


def _groups_scale():
    return [
        ("long and deep operands of capture()/group()", "import re\nfor body in (Pregex('a' * 300), Concat(*['ab.'] * 100), Either(*[chr(0x61 + i % 26) * 12 for i in range(30)]), Pregex('a' * 255), Pregex('a' * 257)):\n    c = Capture(body)\n    n0 = re.compile(str(body)).groups\n"
                                                        "    assert re.compile(str(c)).groups == n0 + 1\n    assert re.compile(str(Capture(c))).groups == n0 + 1, len(str(c))\n    nm = Capture(c, 'nm')\n    assert re.compile(str(nm)).groups == n0 + 1 and dict(re.compile(str(nm)).groupindex) == {'nm': 1}\n"
                                                        "    assert re.compile(str(Group(c))).groups == n0\n    assert re.compile(str(Capture(Group(body)))).groups == n0 + 1\n"
                                                        "def nest(k):\n    p = Pregex('a')\n    for i in range(k):\n        p = Capture(p + chr(ord('b') + i))\n    return p\n"
                                                        "for k in (4, 5, 6, 7, 8, 12):\n    c = nest(k)\n    assert re.compile(str(c)).groups == k\n    assert re.compile(str(Capture(c))).groups == k, k\n    assert re.compile(str(Group(c))).groups == k - 1, k\n"
                                                        "    nm = Capture(c, 'outer')\n    assert re.compile(str(nm)).groups == k and dict(re.compile(str(nm)).groupindex) == {'outer': 1}, k\n    assert Optional(c).is_exact_match('') and str(Optional(c)) == str(c) + '?'\n"
                                                        "for ln in (31, 32, 33, 64, 200):\n    n = 'g' * ln\n    c = Capture(Capture('a', 'inner') + 'b', n)\n    r = Capture(c, 'renamed')\n    assert dict(re.compile(str(r)).groupindex) == {'renamed': 1, 'inner': 2}, ln\n"
                                                        "    g = Group(c)\n    assert dict(re.compile(str(g)).groupindex) == {'inner': 1}, ln"),
    ]


def _refs_scale():
    return [
        ("lookbehinds over references to the ninth ... ninety-ninth group", "import re\nfor n in (1, 9, 10, 11, 12, 50, 98, 99):\n    groups = Concat(*[Capture(chr(0x61 + i % 26)) for i in range(n)])\n    last = chr(0x61 + (n - 1) % 26)\n"
                                                                            "    for mk in (lambda y: PrecededBy('k', y), lambda y: NotPrecededBy('k', y), lambda y: EnclosedBy('k', y), lambda y: Pregex('k').not_enclosed_by(y)):\n"
                                                                            "        for var in (Backreference(n) + Optional('a'), OneOrMore('a') + Backreference(n), Backreference(n) + Backreference(1) + AtMost('b', 2), Either(Backreference(n), 'aa' + Backreference(n))):\n"
                                                                            "            try:\n                r = mk(var)\n            except NonFixedWidthPatternException:\n                continue\n            raise AssertionError('group %d: accepted %s' % (n, str(r)[-40:]))\n"
                                                                            "        r = groups + mk(Backreference(n) + 'x' + Backreference(1))\n        re.compile(str(r), 24)\n"
                                                                            "    for multi in (Backreference(n) + Backreference('tail'), Backreference('head') + Backreference(n) + Backreference('tail'), Backreference(n) + Backreference(max(1, n - 1)) + Backreference('t1') + Backreference('t2')):\n"
                                                                            "        for mk in (lambda y: PrecededBy('k', y), lambda y: Pregex('k').not_enclosed_by(y)):\n            try:\n                r = mk(multi + Optional('a'))\n            except NonFixedWidthPatternException:\n                pass\n            else:\n                raise AssertionError('group %d and names: accepted %s' % (n, str(r)[-50:]))\n"
                                                                            "            mk(multi + 'a')\n"
                                                                            "    full = groups + PrecededBy('k', Backreference(n))\n    t = ''.join(chr(0x61 + i % 26) for i in range(n))\n    assert full.is_exact_match(t + 'k'), n\n"
                                                                            "    full2 = groups + last + PrecededBy('k', Backreference(n))\n    assert full2.is_exact_match(t + last + 'k'), n\n    assert not full2.is_exact_match(t + ('z' if last != 'z' else 'y') + 'k'), n"),
    ]


def _long_literals():
    return [
        ("long literals", "import re\nfor s in ('a' * 100 + '.', '.' * 64, '(' * 40 + ')' * 41, '\\\\' * 33, 'ab|' * 50, ''.join(chr(c) for c in range(32, 127)) * 3, 'é' * 70 + '$', '[' * 17 + '^-]' * 17):\n"
                          "    p = Pregex(s)\n    assert p.is_exact_match(s) and not p.is_exact_match(s[:-1]) and not p.is_exact_match(s + s[-1]), s[:20]\n"
                          "    assert Optional(s).is_exact_match('') and Optional(s).is_exact_match(s) and not Optional(s).is_exact_match(s[1:])\n"
                          "    assert (Pregex('x') + s + 'y').is_exact_match('x' + s + 'y')\n    assert Either('q', s).is_exact_match(s) and Capture(s).get_captures(s) == [(s,)]\n"
                          "    c = Pregex(s)\n    c.compile()\n    assert c.is_exact_match(s)\n    assert re.fullmatch(p.get_pattern(), s, 24)"),
        ("long literals at alternation and concatenation junctions", "for s in ('\\\\' * 25, 'd\\\\' * 25, '\\\\' * 40 + 'x', '.' * 30, '|' * 26, '$' * 25, '[' * 30, 'a\\\\' * 24 + '\\\\'):\n    for build in (lambda: Either(s, 'b') + 'c', lambda: 'c' + Either('b', s), lambda: Either(s, '~') + Either('f', s),\n"
                                                                     "                  lambda: Optional(Either(s, 'b')) + 'c', lambda: Concat(Either(s, 'b'), 'c'), lambda: Enclose(Either(s, 'b'), 'c')):\n        r = build()\n"
                                                                     "        ok_texts = {0: [s + 'c', 'bc'], 1: ['cb', 'c' + s], 2: [s + 'f', '~' + s, s + s], 3: ['c', 'bc', s + 'c'], 4: [s + 'c', 'bc'], 5: ['c' + s + 'c', 'cbc']}\n"
                                                                     "    for i, build in enumerate((lambda: Either(s, 'b') + 'c', lambda: 'c' + Either('b', s), lambda: Either(s, '~') + Either('f', s), lambda: Optional(Either(s, 'b')) + 'c', lambda: Concat(Either(s, 'b'), 'c'), lambda: Enclose(Either(s, 'b'), 'c'))):\n"
                                                                     "        r = build()\n        for t in ok_texts[i]:\n            assert r.is_exact_match(t), (i, s[:6], t[:12])\n        assert not r.is_exact_match(s) or i == 3 and False, (i, s[:6])\n        assert not r.is_exact_match('b') and not r.is_exact_match(s + 'b' + 'c')"),
        ("ten or more one-character operands", "chars = ['a', 'b', 'c', 'd', 'e', 'f', 'g', 'h', '-', 'z', '^', ']', '\\\\', '.', '[']\nfor n in (9, 10, 11, 15):\n    for ops in (chars[:n], list(reversed(chars[:n])), ['^'] + chars[:n - 1], [']', '-'] + chars[:n - 2]):\n        e = Either(*ops)\n"
                                               "        for ch in 'abcdefghijklmnopqrstuvwxyz-^].[\\\\|0 ':\n            assert e.is_exact_match(ch) == (ch in ops), (n, ops[:3], ch)\n        assert not e.is_exact_match('ab') and not e.is_exact_match('')\n"
                                               "        c = Concat(*ops)\n        assert c.is_exact_match(''.join(ops)) and not c.is_exact_match(''.join(ops)[:-1])"),
        ("NUL and control characters followed by digits", "for s in ('\\x0012', '\\x000', '\\x007', '\\x00' + '8', 'a\\x001', '\\x01' + '1', '\\x1b[0m', '\\x7f7', '\\x00\\x00' + '77'):\n    p = Pregex(s)\n    assert p.is_exact_match(s) and not p.is_exact_match('\\n') and not p.is_exact_match(s[:-1]), repr(s)\n"
                                                          "    q = Pregex(s[0]) + s[1:]\n    assert q.is_exact_match(s) and not q.is_exact_match('\\n'), repr(s)\n    for k in range(1, len(s)):\n        assert (Pregex(s[:k]) + Pregex(s[k:])).is_exact_match(s), (repr(s), k)\n"
                                                          "    c = Pregex(s)\n    c.compile()\n    assert c.is_exact_match(s) and not c.is_exact_match('\\n')\n    assert Capture(s).get_captures('x' + s) == [(s,)] and AnyFrom(s[0], 'q').is_exact_match(s[0])"),
        ("strings that start with a digit right after a numeric reference", "for s in ('1', '0', '12', '7a', '00', '9.5'):\n    for lead in ('', 'q', '\\\\', ':\\\\', '\\\\\\\\', 'a\\\\b\\\\'):\n        for n in (1, 2, 10):\n"
                                                                            "            groups = Concat(*[Capture(AnyLetter()) for _ in range(n)])\n            letters = 'wxyzabcdef'[:n]\n            for build in (lambda: groups + lead + Backreference(n) + s, lambda: groups + Concat(lead, Backreference(n), s) if lead else groups + Concat(Backreference(n), s),\n"
                                                                            "                          lambda: groups + lead + Enclose(s, Backreference(n)), lambda: groups + (Pregex(lead) + Backreference(n)).concat(s), lambda: groups + Pregex(s).concat(Pregex(lead) + Backreference(n), on_right=False)):\n"
                                                                            "                r = build()\n                mid = letters[n - 1]\n                texts = [letters + lead + mid + s, letters + lead + mid + s + mid]\n                assert r.is_exact_match(texts[0]) or r.is_exact_match(texts[1]), (s, lead, n, str(r))\n"
                                                                            "                assert not r.is_exact_match(letters + lead + s), (s, lead, n)"),
        ("long group names", "n = 'group_' + 'x' * 60\np = Capture('a', n) + Backreference(n)\nassert p.is_exact_match('aa') and p.get_named_captures('aa') == [{n: 'a'}]\n"
                             "q = Capture(Capture('a', n), 'short')\nimport re\nassert dict(re.compile(str(q)).groupindex) == {'short': 1}"),
    ]


def _classes():
    return [
        ("AnyFrom with many characters", "from mc import den\nchars = list('abcdefghijklmnop0123456789_-^]\\\\[$.|?*+(){}/')\nc = AnyFrom(*chars)\nd, m = den.of_text(str(c))\nassert den.diff(d, m) == den.diff(den.from_chars(chars), m), str(c)\n"
                                         "n = AnyButFrom(*chars)\nd2, m2 = den.of_text(str(n))\nassert den.diff(d2, m2) == den.diff(den.compl(den.from_chars(chars)), m2), str(n)\n"
                                         "for base, holes, dups in (('ABCDEFGHIJKLMNOPQ', 'KLMNO', 'AABBC'), ('abcdefghijklmnopqrst', 'f', 'z'[:0] + 'a'), ('0123456789abcdefghij', 'cd', '00'), ('abcdefghijklmnopqrstuvwxyz', 'mnopq', 'aaaaa')):\n"
                                         "    args = [ch for ch in base if ch not in holes] + list(dups)\n    want = den.from_chars([ch for ch in base if ch not in holes])\n    for order in (args, list(reversed(args)), sorted(args), args[1::2] + args[::2]):\n"
                                         "        dd, mm = den.of_text(str(AnyFrom(*order)))\n        assert den.diff(dd, mm) == den.diff(want, mm), (base[:4], str(AnyFrom(*order)))\n        dn, mn = den.of_text(str(AnyButFrom(*order)))\n        assert den.diff(dn, mn) == den.diff(den.compl(want), mn), base[:4]\n"
                                         "odd = [chr(c) for c in range(33, 127, 2)]\nd3, m3 = den.of_text(str(AnyFrom(*odd)))\nassert den.diff(d3, m3) == den.diff(den.from_chars(odd), m3)"),
        ("union and subtraction of a dozen ranges", "from mc import den\nrs = [(chr(0x100 + 16 * i), chr(0x100 + 16 * i + 9)) for i in range(12)]\nu = AnyBetween(*rs[0])\nfor a, b in rs[1:]:\n    u = u | AnyBetween(a, b)\n"
                                                    "d, m = den.of_text(str(u))\nassert d == den.norm([(ord(a), ord(b)) for a, b in rs]), str(u)\n"
                                                    "w = AnyBetween(chr(0x100), chr(0x1ff)) - u\nd2, m2 = den.of_text(str(w))\nassert d2 == den.diff(den.norm([(0x100, 0x1ff)]), d), str(w)\n"
                                                    "v = u\nfor a, b in rs[:11]:\n    v = v - AnyBetween(a, b)\nd3, _ = den.of_text(str(v))\nassert d3 == den.norm([(ord(rs[11][0]), ord(rs[11][1]))]), str(v)\n"
                                                    "x = AnyFrom('a')\nfor ch in 'cegikmoqsuwy':\n    x = x | ch\nd4, _ = den.of_text(str(x))\nassert d4 == den.from_chars(list('acegikmoqsuwy')), str(x)\n"
                                                    "assert den.of_text(str(~~u))[0] == d"),
    ]


def _classes_more():
    return [
        ("invalid arguments beyond the tenth", "for bad in ('ab', 5, None, '', AnyDigit(), Pregex('ab')):\n    for n in (10, 11, 15, 40):\n        args = [chr(0x61 + i % 26) for i in range(n)] + [bad]\n        for cls in (AnyFrom, AnyButFrom):\n"
                                               "            try:\n                r = cls(*args)\n            except InvalidArgumentTypeException:\n                continue\n            raise AssertionError('%s accepted %r as argument %d' % (cls.__name__, bad, n + 1))"),
        ("ranges above the basic plane", "from mc import den\nfor a, b in (('\\u4e00', '\\U00010000'), ('\\uffff', '\\U00010000'), ('\\U00010000', '\\U0010ffff'), ('z', '\\U0001f600'), ('\\U0001f600', '\\U0001f64f'), ('\\x7f', '\\u0100'), ('\\u0fff', '\\u1000')):\n"
                                         "    d, m = den.of_text(str(AnyBetween(a, b)))\n    assert d == den.norm([(ord(a), ord(b))]), (a, b)\n    d2, m2 = den.of_text(str(AnyButBetween(a, b)))\n    assert d2 == den.compl(den.norm([(ord(a), ord(b))])), (a, b)\n"
                                         "    for cls in (AnyBetween, AnyButBetween):\n        try:\n            cls(b, a)\n        except InvalidRangeException:\n            continue\n        raise AssertionError('reversed range accepted')"),
        ("class algebra above U+FFFF", "from mc import den\nN = den.norm\nE = AnyBetween('\\U0001f600', '\\U0001f64f')\nassert den.of_text(str(E - AnyFrom('\\U0001f600')))[0] == N([(0x1f601, 0x1f64f)])\nassert den.of_text(str(E - AnyFrom('\\U0001f64f')))[0] == N([(0x1f600, 0x1f64e)])\n"
                                       "assert den.of_text(str(E - AnyBetween('\\U0001f610', '\\U0001f620')))[0] == N([(0x1f600, 0x1f60f), (0x1f621, 0x1f64f)])\nassert den.of_text(str(E - AnyFrom('\\U0001f605', '\\U0001f606', '\\U0001f630')))[0] == den.diff(N([(0x1f600, 0x1f64f)]), den.from_chars(['\\U0001f605', '\\U0001f606', '\\U0001f630']))\n"
                                       "W = AnyBetween('a', '\\U0001f64f')\nassert den.of_text(str(W - AnyBetween('\\uffff', '\\U00010010')))[0] == N([(0x61, 0xfffe), (0x10011, 0x1f64f)])\nassert den.of_text(str(W - AnyBetween('\\ufff0', '\\uffff')))[0] == N([(0x61, 0xffef), (0x10000, 0x1f64f)])\n"
                                       "B = AnyBetween('\\ufff0', '\\U00010010')\nassert den.of_text(str(B - AnyFrom('\\uffff')))[0] == N([(0xfff0, 0xfffe), (0x10000, 0x10010)])\nassert den.of_text(str(B - AnyFrom('\\U00010000')))[0] == N([(0xfff0, 0xffff), (0x10001, 0x10010)])\n"
                                       "assert den.of_text(str(E | AnyBetween('\\U0001f640', '\\U0001f680')))[0] == N([(0x1f600, 0x1f680)])\nassert den.of_text(str(~E))[0] == den.compl(N([(0x1f600, 0x1f64f)]))\nassert den.of_text(str(~~E))[0] == N([(0x1f600, 0x1f64f)])\n"
                                       "assert den.of_text(str(AnyBetween('\\U0010fff0', '\\U0010ffff') - AnyFrom('\\U0010ffff')))[0] == N([(0x10fff0, 0x10fffe)])\nassert den.of_text(str(AnyButBetween('\\U0001f600', '\\U0001f64f') | AnyButFrom('\\U0001f600')))[0] == den.compl(N([(0x1f600, 0x1f64f)]))\n"
                                       "for bad in (lambda: E - AnyBetween('\\U0001f5ff', '\\U0001f650'), lambda: AnyFrom('\\U0001f600') - E, lambda: E - E):\n    try:\n        r = bad()\n    except EmptyClassException:\n        continue\n    raise AssertionError(str(r))"),
        ("many characters against ranges", "from mc import den\nsc = [chr(0x100 + 3 * i) for i in range(40)]\nA = AnyFrom(*sc)\nB = AnyBetween(chr(0x100), chr(0x100 + 3 * 29)) | AnyBetween(chr(0x400), chr(0x410))\nd, m = den.of_text(str(A - B))\nassert d == den.from_chars(sc[30:]), str(A - B)\n"
                                           "try:\n    r = AnyFrom(*sc) - AnyBetween(chr(0x100), chr(0x200))\nexcept EmptyClassException:\n    pass\nelse:\n    raise AssertionError(str(r))\n"
                                           "R = AnyBetween(chr(0x1000), chr(0x1400))\nholes = [chr(0x1000 + 7 * i + 3) for i in range(120)]\nX = R\nfor h in holes:\n    X = X - h\nd2, _ = den.of_text(str(X))\nassert d2 == den.diff(den.norm([(0x1000, 0x1400)]), den.from_chars(holes)), len(str(X))\n"
                                           "Y = R - AnyFrom(*holes)\nassert den.of_text(str(Y))[0] == d2\nZ = AnyFrom(*holes) | AnyFrom(*sc)\nassert den.of_text(str(Z))[0] == den.union(den.from_chars(holes), den.from_chars(sc))"),
    ]


def _matching():
    return [
        ("many matches, large positions", "import re\np = Capture(OneOrMore(AnyDigit()), 'n') + Optional(Capture('x'))\nt = ' '.join(str(i) + ('x' if i % 3 == 0 else '') for i in range(1200))\ncre = re.compile(str(p), 24)\nms = list(cre.finditer(t))\n"
                                          "for q in (p, (lambda z: (z.compile(), z)[1])(Capture(OneOrMore(AnyDigit()), 'n') + Optional(Capture('x')))):\n"
                                          "    assert q.get_matches(t) == [m.group(0) for m in ms]\n    assert q.get_matches_and_pos(t) == [(m.group(0), m.start(), m.end()) for m in ms]\n"
                                          "    assert q.get_captures(t) == [m.groups() for m in ms]\n    assert q.get_named_captures_and_pos(t)[-1] == {'n': ('1199', len(t) - 4, len(t))}\n"
                                          "    assert q.get_captures_and_pos(t, relative_to_match=True)[999] == [('999', 0, 3), ('x', 3, 4)]\n"
                                          "    assert len(q.split_by_match(t)) == len(ms) + 1 and ''.join(a + m.group(0) for a, m in zip(q.split_by_match(t), ms)) + q.split_by_match(t)[-1] == t\n"
                                          "    for count in (9, 10, 11, 99, 100, 101, 1199, 1200, 5000):\n        assert q.replace(t, '#', count) == cre.sub('#', t, count=count), count\n"
                                          "    for nl, nr in ((10, 0), (0, 10), (12, 15), (100, 100), (5000, 5000)):\n"
                                          "        assert q.get_matches_with_context(t, nl, nr) == [t[max(m.start() - nl, 0):m.end() + nr] for m in ms], (nl, nr)"),
        ("empty captures beyond position 256", "import re\np = Capture(Optional('x')) + Capture(AnyDigit(), 'd') + Capture(Indefinite('y'))\nt = ' '.join(('x' if i % 2 else '') + str(i % 10) + ('y' if i % 3 == 0 else '') for i in range(400))\ncre = re.compile(str(p), 24)\nms = list(cre.finditer(t))\n"
                                               "for q in (p, (lambda z: (z.compile(), z)[1])(Capture(Optional('x')) + Capture(AnyDigit(), 'd') + Capture(Indefinite('y')))):\n    for ie in (True, False):\n"
                                               "        assert q.get_captures(t, ie) == [tuple(g for g in m.groups() if ie or g != '') for m in ms], ie\n"
                                               "        assert q.get_captures_and_pos(t, ie) == [[(m.group(i), m.start(i), m.end(i)) for i in (1, 2, 3) if ie or m.group(i) != ''] for m in ms], ie\n"
                                               "        assert q.get_named_captures_and_pos(t, ie) == [{'d': (m.group(2), m.start(2), m.end(2))} for m in ms]\n"
                                               "        caps = [g for m in ms for g in m.groups() if ie or g != '']\n        ps = q.split_by_capture(t, ie)\n        assert len(ps) == len(caps) + 1 and ''.join(a + b for a, b in zip(ps, caps)) + ps[-1] == t, ie"),
        ("long match, long text", "p = Indefinite(AnyLetter())\nt = 'a' * 5000 + ' ' + 'b' * 70000\nassert p.get_matches(t)[0] == 'a' * 5000 and p.get_matches_and_pos(t)[2] == ('b' * 70000, 5001, 75001)\nassert p.is_exact_match('ab' * 40000) and Pregex('b' * 70000).has_match(t)"),
        ("file larger than any buffer", "import tempfile, os\np = Capture(OneOrMore(AnyDigit())) + '\\n'\nt = ''.join('%d\\n' % i for i in range(60000)) + 'é' * 3 + '\\n77\\n'\nf = os.path.join(tempfile.mkdtemp(), 'big.txt')\nopen(f, 'w', encoding='utf-8', newline='').write(t)\n"
                                        "assert len(t.encode()) > 300000\nrun = 'a' * 65000 + 'z' * 3000 + '\\nb' + 'c' * 70000\nf2 = os.path.join(os.path.dirname(f), 'run.txt')\nopen(f2, 'w', encoding='utf-8', newline='').write(run)\n"
                                        "for mk in (lambda: Pregex('z' * 3000), lambda: MatchAtStart('z'), lambda: MatchAtLineStart('c'), lambda: MatchAtEnd('c' * 66000), lambda: Pregex('az') + Indefinite('z') + Newline() + 'bc', lambda: MatchAtLineStart('b' + 'c' * 70000)):\n"
                                        "    for comp in (False, True):\n        q = mk()\n        if comp:\n            q.compile()\n        assert q.has_match(f2, is_path=True) == q.has_match(run), str(q)[:30]\n        assert q.get_matches_and_pos(f2, is_path=True) == q.get_matches_and_pos(run), str(q)[:30]\n"
                                        "        assert q.is_exact_match(f2, is_path=True) == q.is_exact_match(run)\nfor q in (p, (lambda z: (z.compile(), z)[1])(Capture(OneOrMore(AnyDigit())) + '\\n')):\n    assert q.get_matches(f, is_path=True) == q.get_matches(t)\n    assert q.get_captures_and_pos(f, is_path=True)[-1] == q.get_captures_and_pos(t)[-1]\n"
                                        "    assert q.has_match(f, is_path=True) and not q.is_exact_match(f, is_path=True)\n    assert q.replace(f, '', 10, is_path=True) == q.replace(t, '', 10)\n    assert q.split_by_match(f, is_path=True) == q.split_by_match(t)\n"
                                        "    assert q.get_matches_with_context(f, 12, 12, is_path=True)[-1] == q.get_matches_with_context(t, 12, 12)[-1]"),
    ]


def _numeric():
    return [
        ("integers with many digits", "from mc.props.numeric import ok\nfor lo, hi in ((0, 10 ** 12), (123456789, 9876543210), (10 ** 10, 10 ** 10 + 5), (999999999999, 10 ** 15), (0, 2 ** 64), (100, 10 ** 15 - 1), (5, 10 ** 16 - 1), (100, 10 ** 18 - 1), (12, 10 ** 20 - 1), (0, 2147483647), (7, 10 ** 9 - 1)):\n    p = Integer(lo, hi)\n    for v in (0, 5, 10, 42, 99, 100, 2147483647, 2147483648, 9999999999, 10 ** 10):\n        assert p.is_exact_match(str(v)) == (lo <= v <= hi), (lo, hi, v)\n"
                                      "    for v in (lo, hi, lo - 1, hi + 1, (lo + hi) // 2, lo * 10, hi // 10, lo + 1, hi - 1, 10 ** len(str(hi)) - 1, 10 ** (len(str(lo)) - 1)):\n        if v < 0:\n            continue\n"
                                      "        s = str(v)\n        assert p.is_exact_match(s) == (lo <= v <= hi), (lo, hi, s)\n        assert p.get_matches(' ' + s + ' ') == ([s] if lo <= v <= hi else []), (lo, hi, s)\n"
                                      "        assert not p.is_exact_match('0' + s), (lo, hi, s)\n        q = Pregex('id') + Integer(lo, hi, is_extensible=True)\n        assert q.is_exact_match('id' + s) == (lo <= v <= hi), (lo, hi, s)"),
        ("ranges whose bounds have ten to thirteen digits, all neighbours", "lo, hi = 9999999990, 10000000010\np = Integer(lo, hi)\nfor v in range(lo - 12, hi + 13):\n    assert p.is_exact_match(str(v)) == (lo <= v <= hi), v\n"
                                                                          "p2 = NegativeInteger(99, 1001)\nfor v in range(90, 1012):\n    assert p2.is_exact_match('-' + str(v)) == (99 <= v <= 1001), v"),
        ("decimal integer parts with interior zeros and many digits", "for lo, hi in ((0, 5000), (0, 2147483647), (1000, 100000), (99, 10 ** 12)):\n    for ip in ('1000', '2004', '1001', '10000', '100', '5000', '5001', '20000', '100000', '100001', '1000000000', '1000000', '999', '99', '0', '00', '0100'):\n        for fr in ('5', '25'):\n"
                                                                      "            canon = ip == '0' or not ip.startswith('0')\n            exp = canon and lo <= int(ip) <= hi\n            assert Decimal(lo, hi, 1, 2).is_exact_match(ip + '.' + fr) == exp, (lo, hi, ip)\n"
                                                                      "            assert NegativeDecimal(lo, hi, 1, 2).is_exact_match('-' + ip + '.' + fr) == exp, (lo, hi, ip)\n            assert (Pregex('a') + UnsignedDecimal(lo, hi, 1, 2, is_extensible=True)).is_exact_match('a' + ip + '.' + fr) == exp, (lo, hi, ip)"),
        ("decimal places with two digits", "for mn, mx in ((10, 10), (10, 12), (9, 11), (12, None), (1, 100)):\n    p = Decimal(0, 99, mn, mx)\n    for k in (1, 8, 9, 10, 11, 12, 13, 99, 100, 101):\n"
                                           "        s = '7.' + '5' * k\n        assert p.is_exact_match(s) == (mn <= k and (mx is None or k <= mx)), (mn, mx, k)\n"
                                           "        assert (Pregex('a') + Decimal(0, 99, mn, mx, is_extensible=True) + 'kg').is_exact_match('a' + s + 'kg') == (mn <= k and (mx is None or k <= mx)), (mn, mx, k)"),
        ("numeral and word lengths with two digits", "for lo, hi in ((10, 10), (10, 12), (9, 11), (12, None), (100, 101)):\n    for k in (8, 9, 10, 11, 12, 13, 99, 100, 101, 102):\n        exp = lo <= k and (hi is None or k <= hi)\n"
                                                     "        assert Numeral(16, lo, hi).is_exact_match('f' * k) == exp, (lo, hi, k)\n        assert Numeral(2, lo, hi, is_extensible=True).is_exact_match('10' * (k // 2) + '1' * (k % 2)) == exp, (lo, hi, k)\n"
                                                     "        assert Word(lo, hi).is_exact_match('w' * k) == exp, (lo, hi, k)\n        assert Word(lo, hi, is_extensible=True).is_exact_match('w' * k) == exp, (lo, hi, k)\n"
                                                     "        assert Word(lo, hi).get_matches(' ' + 'w' * k + ' ') == (['w' * k] if exp else []), (lo, hi, k)"),
        ("every number of affixes from 1 to 130, 192, 193, 257", "affs = ['k%03dz' % i for i in range(300)]\nfor n in list(range(1, 131)) + [192, 193, 256, 257]:\n    lst = affs[:n]\n    for cls, mk in ((WordContains, lambda a: 'xx' + a + 'yy'), (WordStartsWith, lambda a: a + 'yy'), (WordEndsWith, lambda a: 'xx' + a)):\n"
                                                                 "        p = cls(lst)\n        for a in (lst[0], lst[-1], lst[n // 2], lst[max(0, n - 2)], lst[min(n - 1, 63)], lst[min(n - 1, 64)]):\n            assert p.is_exact_match(mk(a)), (cls.__name__, n, a)\n        assert not p.is_exact_match(mk(affs[n])), (cls.__name__, n)\n"
                                                                 "    if n % 16 == 1:\n        q = WordContains(lst, is_extensible=True)\n        assert q.is_exact_match('xx' + lst[-1] + 'yy') and not q.is_exact_match('xx' + affs[n] + 'yy'), n"),
        ("length bounds with five and more digits", "for hi in (65534, 65535, 65536, 70000, 100000):\n    for mk, unit in ((lambda: Word(1, hi), 'w'), (lambda: Word(3, hi, is_extensible=True), 'w'), (lambda: Numeral(2, 3, hi), '1'), (lambda: Numeral(16, 1, hi, is_extensible=True), 'f')):\n        p = mk()\n"
                                                    "        assert p.is_exact_match(unit * hi) and not p.is_exact_match(unit * (hi + 1)) and p.is_exact_match(unit * (hi - 1)), hi\n"
                                                    "assert AtMost('a', 70000).is_exact_match('a' * 70000) and not AtMost('a', 70000).is_exact_match('a' * 70001)\nassert AtLeastAtMost('ab', 2, 65535).is_exact_match('ab' * 65535) and not AtLeastAtMost('ab', 2, 65535).is_exact_match('ab' * 65536)"),
        ("long affixes and many affixes", "affs = ['k%02d.' % i for i in range(14)]\np = WordContains(affs)\nfor a in affs:\n    assert p.is_exact_match('xx' + a + 'yy') and not p.is_exact_match('xx' + a.replace('.', 'z') + 'yy'), a\n"
                                          "for aff in ('1' + '.0' * 25, 'a' + '(' * 30 + 'a', 'a' + '|b' * 26, 'x' + '$' * 25 + 'x', 'q' + '[a]' * 12 + 'q'):\n    for cls, t in ((WordContains, 'xx' + aff + 'yy'), (WordStartsWith, aff + 'yy'), (WordEndsWith, 'xx' + aff)):\n        assert cls(aff).is_exact_match(t), (cls.__name__, aff[:8])\n"
                                          "        assert not cls(aff).is_exact_match(t.replace(aff, aff[:-2] + 'Q' + aff[-1:])), (cls.__name__, aff[:8])\n        assert not cls(aff).is_exact_match(t.replace(aff, aff.replace('.', 'z').replace('|', '/').replace('(', 'z').replace('$', 'z').replace('[', 'z'))) or not any(ch in aff for ch in '.|($['), aff[:8]\n"
                                          "affs = ['a.b', 'c+', 'd']\nfirst = [str(WordContains(affs)), str(WordStartsWith(affs)), str(WordEndsWith(affs))]\nassert affs == ['a.b', 'c+', 'd']\nfor i in range(3):\n    assert [str(WordContains(affs)), str(WordStartsWith(affs)), str(WordEndsWith(affs))] == first, i\n    assert affs == ['a.b', 'c+', 'd']\n"
                                          "long = 'pre' * 20 + '+x'\nassert WordStartsWith(long).is_exact_match(long + 'abc') and not WordStartsWith(long).is_exact_match(long[1:] + 'abc')\n"
                                          "assert WordEndsWith([long, 'z' * 40]).is_exact_match('abc' + 'z' * 40) and WordEndsWith([long, 'z' * 40]).is_exact_match('q' + long)"),
    ]


def _meta_lang():
    return [
        ("addresses and dates in long texts", "import ipaddress\nt = ' '.join('10.%d.%d.%d' % (i, 255 - i, i * 7 % 256) for i in range(0, 256, 5)) + ' 1.2.3.256 300.1.1.1'\nms = IPv4().get_matches(t)\nassert ms == t.split(' ')[:-2], ms[-3:]\n"
                                              "for a in ('1:2:3:4:5:6:7:8', 'ffff:ffff:ffff:ffff:ffff:ffff:ffff:ffff', '1234:5678:9abc:def0:1234:5678:9abc:def0', '0:0:0:0:0:0:0:0', 'ffff::', '::ffff:ffff:ffff:ffff:ffff:ffff:ffff'):\n"
                                              "    assert IPv6().is_exact_match(a) and IPv6(is_extensible=True).is_exact_match(a), a\n"
                                              "for a in ('12345:2:3:4:5:6:7:8', '1:2:3:4:5:6:7:8:9', 'fffff::', '1:2:3:4:5:6:7:88888'):\n    assert not IPv6().is_exact_match(a) and not IPv6(is_extensible=True).is_exact_match(a), a\n"
                                              "d = Date()\nt2 = ' '.join('%02d/%02d/%04d' % (1 + i % 28, 1 + i % 12, 1900 + i) for i in range(150))\nassert d.get_matches(t2) == t2.split(' ')\n"
                                              "fm = ['dd/mm/yyyy', 'd/m/yy', 'mm-dd-yyyy', 'yyyy/mm/dd', 'yy-m-d', 'm/d/yy', 'dd-mm-yy', 'd-m-yyyy', 'yyyy-m-d', 'mm/dd/yy', 'yy/mm/dd', 'd/mm/yyyy']\nd12 = Date(fm)\n"
                                              "from mc.props.lang import all_formats, date_model, near\nimport re\nfm48 = all_formats()\nfor n in (16, 17, 20, 31, 32, 33, 47, 48):\n    sel = fm48[:n]\n    dn = Date(sel)\n    for f in (fm48[0], fm48[n - 1], fm48[min(n, 47)], fm48[15], fm48[16 if n > 16 else 0], fm48[-1]):\n"
                                              "        for (a, s1, b, s2, c) in near(f)[::7]:\n            t = a + s1 + b + s2 + c\n            assert dn.is_exact_match(t) == any(date_model(g, a, s1, b, s2, c) for g in sel), (n, t)\n"
                                              "for bad in (fm48[:47] + ['dd.mm.yyyy'], fm48[:20] + ['x'] + fm48[20:47], ['dd/mm/yyyy'] * 47 + ['DD/MM/YYYY']):\n    try:\n        Date(bad)\n    except InvalidArgumentValueException:\n        continue\n    raise AssertionError('invalid format in a list of %d accepted' % len(bad))\n"
                                              "dup = Date(['dd/mm/yyyy'] * 48)\nassert dup.is_exact_match('24/11/2001') and not dup.is_exact_match('2001-7-3') and not dup.is_exact_match('24-11-2001')\n"
                                              "assert d12.is_exact_match('7/11/2001') and d12.is_exact_match('2001-7-3') and d12.is_exact_match('01/31/99') and not d12.is_exact_match('2001/7/3') and not d12.is_exact_match('7-11-01')"),
    ]


def _sweep_bounds():
    return [
        ("every bound from 0 to 130 and around powers of two", "ns = list(range(0, 131)) + [255, 256, 257, 511, 512, 1000, 1023, 1024, 1025, 4095, 4096, 65535, 65536]\nfor x, X in (('ab', '(?:ab)'), (AnyDigit(), '\\\\d'), (Either('a', 'bc'), '(?:a|bc)')):\n    for n in ns:\n"
                                                               "        eq(Exactly(x, n), X + '{%d}' % n)\n        eq(AtLeast(x, n, False), X + '{%d,}?' % n)\n        eq(AtMost(x, n), X + '{,%d}' % n)\n        eq(AtLeastAtMost(x, n, n + 1), X + '{%d,%d}' % (n, n + 1))\n"
                                                               "        eq(AtLeastAtMost(x, n, n), X + '{%d}' % n)\n        eq((Pregex(x) if isinstance(x, str) else x) * n, X + '{%d}' % n)\n        eq(AtLeastAtMost(x, 0, n, False), X + '{,%d}?' % n)\n"
                                                               "        if n:\n            try:\n                r = AtLeastAtMost(x, n, n - 1)\n            except InvalidArgumentValueException:\n                pass\n            else:\n                raise AssertionError(str(r))"),
        ("every number of operands from 1 to 48", "import string\npool = [c * (1 + i % 2) for i, c in enumerate(string.ascii_letters)]\npool[6] = 'x|y'; pool[12] = '.'; pool[29] = '('\nfor k in range(1, 49):\n    ops = pool[:k]\n    c = Concat(*ops)\n    assert c.is_exact_match(''.join(ops)), k\n"
                                                  "    e = Either(*ops)\n    for o in ops:\n        assert e.is_exact_match(o), (k, o)\n    assert str(e).count('|') == k - 1 + (1 if k > 6 else 0), k\n    assert not e.is_exact_match(''.join(ops[:2]) if k > 1 else 'zz9')\n"
                                                  "    if k > 1:\n        en = Enclose(ops[0], *ops[1:])\n        assert en.is_exact_match(''.join(reversed(ops[1:])) + ops[0] + ''.join(ops[1:])), k\n"
                                                  "    if k <= 24:\n        f = FollowedBy('q', *ops)\n        assert str(f).count('(?=') == k, k\n        nf = NotPrecededBy('q', *ops)\n        assert str(nf).count('(?<!') == k, k\n"
                                                  "    a = AnyFrom(*[chr(0x61 + 2 * i) for i in range(k)])\n    for i in range(k):\n        assert a.is_exact_match(chr(0x61 + 2 * i)), (k, i)\n    assert not a.is_exact_match(chr(0x62)) and not a.is_exact_match(chr(0x61 + 2 * k))"),
    ]


def _sweep_texts():
    return [
        ("texts of every length from 0 to 140", "import re\npats = [Capture(AnyLetter(), 'l') + Optional(Capture(AnyDigit())), Indefinite('ab'), MatchAtLineEnd(OneOrMore(AnyButFrom('\\n'))), Either('a', 'ab', 'abab')]\nunit = 'ab1 a\\nb2ab'\n"
                                                "for p in pats:\n    cre = re.compile(str(p), 24)\n    pc = eval(repr(None)) or None\n    for L in range(0, 141):\n        t = (unit * 20)[:L]\n        ms = list(cre.finditer(t))\n"
                                                "        assert p.get_matches_and_pos(t) == [(m.group(0), m.start(), m.end()) for m in ms], L\n        assert p.has_match(t) == bool(ms) and p.is_exact_match(t) == bool(cre.fullmatch(t)), L\n"
                                                "        assert p.get_captures(t) == [m.groups() for m in ms], L\n        assert p.split_by_match(t) == [t[a:b] for a, b in zip([0] + [m.end() for m in ms], [m.start() for m in ms] + [len(t)])], L\n"
                                                "        assert p.replace(t, '#', 3) == cre.sub('#', t, count=3), L\n        assert p.get_matches_with_context(t, 2, 3) == [t[max(m.start() - 2, 0):m.end() + 3] for m in ms], L"),
        ("files of every length from 0 to 100 and around 4096 / 8192 / 65536", "import tempfile, os\np = Capture(AnyLetter()) + Optional(AnyDigit())\npc = Capture(AnyLetter()) + Optional(AnyDigit())\npc.compile()\nf = os.path.join(tempfile.mkdtemp(), 'f.txt')\nunit = 'ab1 a\\nb2\\u00e9 '\n"
                                                                                "for L in list(range(0, 101)) + [4095, 4096, 4097, 8191, 8192, 8193, 16384, 65535, 65536, 65537, 131072]:\n    t = (unit * (L // len(unit) + 1))[:L]\n    open(f, 'w', encoding='utf-8', newline='').write(t)\n"
                                                                                "    for q in (p, pc):\n        assert q.get_matches_and_pos(f, is_path=True) == q.get_matches_and_pos(t), L\n        assert q.has_match(f, is_path=True) == q.has_match(t) and q.is_exact_match(f, is_path=True) == q.is_exact_match(t), L\n"
                                                                                "        assert q.get_captures(f, is_path=True) == q.get_captures(t) and q.split_by_match(f, is_path=True) == q.split_by_match(t), L\n        assert q.replace(f, '#', 2, is_path=True) == q.replace(t, '#', 2), L\n"
                                                                                "        assert q.get_matches_with_context(f, 3, 3, is_path=True) == q.get_matches_with_context(t, 3, 3), L"),
    ]


def _sweep_numeric():
    return [
        ("every end from 0 to 1300 and every start below it", "for end in range(0, 1301):\n    p = Integer(0, end)\n    assert p.is_exact_match(str(end)) and not p.is_exact_match(str(end + 1)) and p.is_exact_match('0') and not p.is_exact_match('0' + str(end)), end\n"
                                                              "    if end % 7 == 0:\n        s = end // 2\n        q = Integer(s, end)\n        assert q.is_exact_match(str(s)) and q.is_exact_match(str(end)) and (s == 0 or not q.is_exact_match(str(s - 1))) and not q.is_exact_match(str(end + 1)), (s, end)\n"
                                                              "for start in range(0, 1201, 3):\n    q = NegativeInteger(start, 1200)\n    assert q.is_exact_match('-' + str(start)) and (start == 0 or not q.is_exact_match('-' + str(start - 1))) and not q.is_exact_match(str(start)), start"),
        ("every fraction length and every word / numeral length from 1 to 40", "for lo in range(1, 41):\n    for hi in (lo, lo + 1, lo + 3, None):\n        d = Decimal(0, 9, lo, hi)\n        w = Word(lo, hi)\n        n = Numeral(16, lo, hi)\n        for k in (lo - 1, lo, lo + 1, lo + 3, lo + 4):\n"
                                                                               "            exp = k >= lo and (hi is None or k <= hi)\n            if k > 0:\n                assert d.is_exact_match('5.' + '7' * k) == exp, (lo, hi, k)\n                assert w.is_exact_match('w' * k) == exp and n.is_exact_match('f' * k) == exp, (lo, hi, k)"),
        ("every number of date formats from 1 to 48", "from mc.props.lang import all_formats, date_model, near\nf48 = all_formats()\nfor k in range(1, 49):\n    sel = f48[:k]\n    d = Date(sel)\n    for f in (f48[k - 1], f48[k % 48], f48[0]):\n        for (a, s1, b, s2, c) in near(f)[::11]:\n"
                                                      "            t = a + s1 + b + s2 + c\n            assert d.is_exact_match(t) == any(date_model(g, a, s1, b, s2, c) for g in sel), (k, t)"),
    ]


def _after_exceptions():
    return [
        ("state after calls that raised", "import re\ndef snap(p):\n    t = 'ab a1 b2\\nab'\n    return (str(p), p.get_pattern(), p.get_matches(t), p.get_matches_and_pos(t), p.get_captures(t), p.is_exact_match('ab'), p.has_match(t), p.replace(t, '#', 1), p.split_by_match(t), str(Optional(p)), str(p + 'x'), str(Capture(p, 'n')))\n"
                                          "bad = [lambda p: p.exactly(-1), lambda p: p.at_least_at_most(3, 1), lambda p: p.capture('1bad'), lambda p: p.get_matches(5), lambda p: p.replace('a', 'b', -1), lambda p: p.get_matches_with_context('a', -1),\n"
                                          "       lambda p: p.get_matches('/nonexistent/dir/file.txt', is_path=True), lambda p: p.is_exact_match('/nonexistent/x', is_path=True), lambda p: PrecededBy('x', p.optional()), lambda p: NotFollowedBy(p, Pregex()),\n"
                                          "       lambda p: p + 5, lambda p: p * 1.5, lambda p: Either(p, None), lambda p: p.concat(None), lambda p: list(p.iterate_captures_and_pos('/nonexistent/x', is_path=True)), lambda p: p.split_by_capture(None),\n"
                                          "       lambda p: Capture(p, 'n').capture(5), lambda p: MatchAtStart(p).one_or_more(), lambda p: p.at_most(True), lambda p: p.get_compiled_pattern().sub(5, 5)]\n"
                                          "for mk in (lambda: Capture(Either('a', 'b'), 'g') + Optional(AnyDigit()), lambda: Pregex('ab'), lambda: Indefinite(AnyLetter()), lambda: AnyFrom('a', 'b') | AnyDigit()):\n    for compiled in (False, True):\n"
                                          "        p = mk()\n        if compiled:\n            p.compile()\n        before = snap(p)\n        raised = 0\n        for f in bad:\n            try:\n                f(p)\n            except Exception:\n                raised += 1\n"
                                          "            assert snap(p) == before, bad.index(f)\n        assert raised >= 15, raised\n        q = mk()\n        assert snap(q)[:1] == before[:1] and snap(q)[2:] == before[2:]"),
    ]


def _generators():
    return [
        ("generators consumed partially, twice, interleaved", "import re\np = Capture(AnyLetter(), 'l') + Capture(Optional(AnyDigit()))\nt = 'a1 b c3 d4 e f6'\nfull = {m: list(getattr(p, m)(t)) for m in ('iterate_matches', 'iterate_matches_and_pos', 'iterate_captures', 'iterate_captures_and_pos', 'iterate_named_captures', 'iterate_named_captures_and_pos')}\n"
                                                              "full['ctx'] = list(p.iterate_matches_with_context(t, 1, 2))\nassert full['iterate_matches'] == p.get_matches(t) and full['iterate_captures'] == p.get_captures(t) and full['ctx'] == p.get_matches_with_context(t, 1, 2)\n"
                                                              "for compiled in (False, True):\n    if compiled:\n        p.compile()\n    its = {m: getattr(p, m)(t) for m in full if m != 'ctx'}\n    heads = {m: [next(g), next(g)] for m, g in its.items()}\n"
                                                              "    for m in heads:\n        assert heads[m] == full[m][:2], m\n        assert list(getattr(p, m)(t)) == full[m], m\n        assert list(getattr(p, m)('zz9')) == list(getattr(p, m)('zz9')), m\n"
                                                              "    for m, g in its.items():\n        assert list(g) == full[m][2:], m\n        assert list(g) == []\n"
                                                              "    a, b = p.iterate_matches(t), p.iterate_matches('x7 y')\n    out = []\n    for _ in range(2):\n        out.append(next(a)); out.append(next(b))\n    assert out == ['a1', 'x7', 'b', 'y'], out\n"
                                                              "    if compiled:\n        g = p.iterate_matches(t)\n        first = next(g)\n        p.get_compiled_pattern(discard_after=True)\n        assert [first] + list(g) == full['iterate_matches']\n        Pregex.purge()\n        assert p.get_matches(t) == full['iterate_matches']\n"
                                                              "import io, contextlib\nbuf = io.StringIO()\nwith contextlib.redirect_stdout(buf):\n    p.print_pattern(); p.print_pattern(include_flags=True)\nlines = buf.getvalue().splitlines()\nassert lines[0] == p.get_pattern() and lines[1] == p.get_pattern(include_flags=True), lines\n"
                                                              "assert re.fullmatch(p.get_pattern(), 'a1', 24) and p.get_pattern(include_flags=True).startswith('/') and p.get_pattern(True).endswith('/gmsu')"),
    ]


def _compiled_operands():
    return [
        ("operands that hold a compiled pattern build what plain operands build", "def out(f):\n    try:\n        r = f()\n        return ('ok', str(r), type(r).__name__)\n    except Exception as e:\n        return ('raise', type(e).__name__)\n"
                                                                                  "mk = [lambda: Pregex('x'), lambda: OneOrMore('a'), lambda: Optional(AnyDigit()), lambda: Either('a', 'bc'), lambda: Capture('a', 'n'), lambda: AnyFrom('a', 'b'), lambda: MatchAtStart('a'), lambda: FollowedBy('a', 'b'),\n"
                                                                                  "      lambda: Exactly('ab', 2), lambda: Pregex(), lambda: Capture('a') + Backreference(1), lambda: AnyDigit(), lambda: Word(), lambda: Integer(1, 20)]\n"
                                                                                  "def states(f):\n    a = f()\n    b = f(); b.compile()\n    c = f(); c.get_compiled_pattern(discard_after=False)\n    d = f(); d.compile(); d.get_compiled_pattern(discard_after=True)\n    return [a, b, c, d]\n"
                                                                                  "binary = [lambda x, y: x.preceded_by(y), lambda x, y: x.not_preceded_by(y), lambda x, y: x.enclosed_by(y), lambda x, y: x.not_enclosed_by(y), lambda x, y: PrecededBy(x, y), lambda x, y: NotEnclosedBy(x, 'k', y),\n"
                                                                                  "          lambda x, y: x.followed_by(y), lambda x, y: x.not_followed_by(y), lambda x, y: x + y, lambda x, y: Either(x, y), lambda x, y: x.enclose(y), lambda x, y: Concat(x, 'q', y), lambda x, y: x.concat(y, on_right=False),\n"
                                                                                  "          lambda x, y: Conditional('n', x, y)]\n"
                                                                                  "unary = [lambda x: x.optional(), lambda x: OneOrMore(x, False), lambda x: x.exactly(3), lambda x: x * 2, lambda x: AtLeastAtMost(x, 1, 2), lambda x: Capture(x), lambda x: x.capture('g'), lambda x: Group(x, True),\n"
                                                                                  "         lambda x: MatchAtLineEnd(x), lambda x: x.match_at_start(), lambda x: ~x, lambda x: x | 'q', lambda x: x - 'a']\n"
                                                                                  "for f in mk:\n    xs = states(f)\n    for u in unary:\n        base = out(lambda: u(xs[0]))\n        for x in xs[1:]:\n            assert out(lambda: u(x)) == base, (str(xs[0]), unary.index(u))\n"
                                                                                  "    for g in mk:\n        ys = states(g)\n        for b in binary:\n            base = out(lambda: b(xs[0], ys[0]))\n            for x in xs:\n                for y in ys:\n                    assert out(lambda: b(x, y)) == base, (str(xs[0]), str(ys[0]), binary.index(b), base)"),
    ]


def _history():
    return [
        ("compile() does not change what long or astral patterns match", "for s in ('\\U0001f600', 'a\\U0001f600b', '\\U00010000', '\\U0010ffff\\U0001f468\\u200d\\U0001f469', '\\u202f', '\\u2028x', 'x' * 300 + '\\U0001f600', '\\ud7ff\\ue000', '\\x85\\xa0'):\n    t = 'q' + s + ' ' + s + s\n"
                                                                          "    for mk in (lambda: Pregex(s), lambda: Optional('z') + s, lambda: Capture(AnyFrom(s[0], 'z')) + s[1:], lambda: Pregex(s).exactly(1).concat('')):\n        p = mk()\n        before = (p.get_matches(t), p.is_exact_match(s), p.get_matches_and_pos(t))\n"
                                                                          "        p.compile()\n        assert (p.get_matches(t), p.is_exact_match(s), p.get_matches_and_pos(t)) == before, repr(s)[:20]\n        p.get_compiled_pattern(discard_after=True)\n        assert (p.get_matches(t), p.is_exact_match(s), p.get_matches_and_pos(t)) == before\n"
                                                                          "        import re\n        assert re.fullmatch(p.get_pattern(), s, 24) or len(p.get_matches(s)) != 1"),
        ("an object reused a dozen times", "x = Either('a', 'b')\nfirst = (str(x), str(Optional(x)), str(x + 'c'), str(Capture(x, 'n')), str(x.exactly(10)))\nfor i in range(12):\n    Group(x, i % 2 == 0); Capture(x, 'g%d' % i); x + str(i); x.exactly(i + 9); Indefinite(x, False); x.get_matches('ab' * i)\n"
                                           "    if i % 3 == 0:\n        x.compile()\n    if i % 4 == 0:\n        x.get_compiled_pattern(discard_after=True)\n"
                                           "    assert (str(x), str(Optional(x)), str(x + 'c'), str(Capture(x, 'n')), str(x.exactly(10))) == first, i\n    assert x.get_matches('abc') == ['a', 'b']\n"
                                           "ys = [AnyDigit() for _ in range(12)]\nacc = AnyFrom('q')\nfor y in ys:\n    acc = acc | y\nassert str(acc) == str(AnyFrom('q') | AnyDigit())\nassert all(str(y) == str(AnyDigit()) for y in ys)"),
    ]


FAMILIES = {
    'C01': _long_literals, 'C02': lambda: _q_cases()[:20] + _many_groups() + _nary() + _deep() + _long_literals()[1:3] + _long_literals()[4:5] + _sweep_bounds(), 'C03': lambda: _sweep_bounds()[1:] + _nary() + _deep() + _long_literals() + _many_groups() + _classes_more()[:2] + _groups_scale() + FAMILIES['C10']()[-1:] + _refs_scale() + _compiled_operands(),
    'C04': lambda: _q_cases() + _sweep_bounds()[:1] + _compiled_operands(), 'C05': lambda: _nary()[3:], 'C06': lambda: _classes()[:1] + _classes_more()[:2], 'C07': lambda: _classes()[1:] + _classes_more()[2:], 'C08': lambda: _many_groups() + _deep()[1:] + _long_literals()[5:] + _groups_scale(),
    'C09': lambda: _nary()[4:] + [("wide repetition of assertions", "for n in (10, 11, 100):\n    for mk in (lambda: MatchAtStart('a'), lambda: FollowedBy('a', 'b'), lambda: EnclosedBy('a', 'b'), lambda: MatchAtLineEnd('a' * 40)):\n"
                                    "        for q in (lambda x: Exactly(x, n), lambda x: x * n, lambda x: AtLeastAtMost(x, 1, n), lambda x: AtLeast(x, n)):\n            try:\n                r = q(mk())\n            except CannotBeRepeatedException:\n                continue\n            raise AssertionError(str(r))\n"
                                    "    assert str(Exactly('a' * 40 + '$', n)).endswith('{%d}' % n)\n"
                                    "for lit in ('.' * 30 + '$', '$' * 26, '(' * 25 + '\\\\Z', '?' * 40 + '(?=a)', '\\\\' * 27 + '$', 'a.' * 13 + '^'):\n    for q in (lambda x: Exactly(x, 2), lambda x: OneOrMore(x), lambda x: Pregex(x) * 3, lambda x: AtLeastAtMost(x, 2, 3)):\n        r = q(lit)\n        assert r.is_exact_match(lit * 2) or r.is_exact_match(lit * 3), lit[:10]\n"
                                    "def nest(k, cap):\n    p = Pregex('a')\n    for i in range(k):\n        p = (Capture(p) if cap else Group(p)) + chr(ord('b') + i)\n    return p\n"
                                    "for k in (3, 5, 6, 7, 9, 12):\n    for cap in (True, False):\n        for mk in (lambda: MatchAtStart(Either('x', nest(k, cap))), lambda: MatchAtLineEnd(Either(nest(k, cap), 'x')), lambda: FollowedBy('a', nest(k, cap)), lambda: FollowedBy('a', Capture(nest(k, cap))),\n"
                                    "                   lambda: PrecededBy('a', nest(k, cap)), lambda: EnclosedBy(nest(k, cap), nest(k, cap) if not cap else 'q'), lambda: MatchAtEnd(nest(k, cap))):\n"
                                    "            for q in (lambda x: OneOrMore(x), lambda x: x * 2, lambda x: AtLeast(x, 0)):\n                try:\n                    r = q(mk())\n                except CannotBeRepeatedException:\n                    continue\n                raise AssertionError('depth %d: %s' % (k, str(r)[:80]))\n"
                                    "        assert OneOrMore(nest(k, cap)).is_exact_match(('a' + ''.join(chr(ord('b') + i) for i in range(k))) * 2), k")],
    'C10': lambda: _nary()[4:] + _refs_scale() + _compiled_operands() + [("wide fixed and variable widths", "for w in (10, 11, 64, 100, 255, 300):\n    for y in (Pregex('a' * w), Exactly(AnyDigit(), w), Exactly(Either('ab', 'cd'), w), Concat(*['x'] * w), AtLeastAtMost('a', w, w)):\n"
                                    "        import re\n        r = PrecededBy('k', y)\n        re.compile(str(r), 24)\n        assert r.get_matches(('ab' * w + 'a' * w + 'x' * w + '7' * w) + 'k') in ([], ['k'])\n"
                                    "    for y in (AtLeastAtMost('a', w, w + 1), AtLeast('a', w), AtMost(AnyDigit(), w), Either('a' * w, 'a' * (w + 1)), Pregex('a' * w) + Optional('b')):\n"
                                    "        try:\n            r = NotPrecededBy('k', y)\n        except NonFixedWidthPatternException:\n            continue\n        raise AssertionError(str(r))\n"
                                    "assert PrecededBy('k', 'ab' * 50).get_matches('ab' * 50 + 'k') == ['k'] and PrecededBy('k', 'ab' * 50).get_matches('ab' * 49 + 'bk') == []")],
    'C11': lambda: _matching() + _after_exceptions() + _generators() + _sweep_texts(), 'C12': lambda: _matching() + _many_groups()[:2] + _after_exceptions() + _generators() + _sweep_texts()[:1],
    'C13': lambda: _matching() + _many_groups()[4:] + _after_exceptions() + _sweep_texts(), 'C14': lambda: _matching() + _after_exceptions() + _generators() + _sweep_texts()[1:],
    'C15': lambda: _numeric()[:2] + _sweep_numeric()[:1], 'C16': lambda: _numeric()[2:4] + _sweep_numeric()[1:2], 'C17': lambda: _numeric()[4:] + _sweep_numeric()[1:2], 'C18': _meta_lang, 'C19': lambda: _meta_lang() + _sweep_numeric()[2:], 'C20': lambda: _history() + _after_exceptions() + _generators() + _compiled_operands(),
}


def check(run, pid, coverage):
    fam = FAMILIES.get(pid)
    if fam is None:
        return
    n = 0
    for label, body in fam():
        n += 1
        code = H + body
        ns = dict(NS)
        try:
            exec(compile(code, '<scale:%s>' % label, 'exec'), ns)
        except Exception as e:  # noqa: BLE001
            tb = traceback.extract_tb(e.__traceback__)
            line = next((f.lineno for f in reversed(tb) if f.filename.startswith('<scale:')), None)
            src = code.splitlines()[line - 1].strip() if line else ''
            run.add([V(f'{pid}|scale|{label}', f"scaled instance '{label}': {type(e).__name__}: {str(e)[:200]} (at: {src[:120]})", code)])
    run.count('scaled_instances', n)
    coverage['transitions'] = coverage.get('transitions', 0) + n
    coverage['traces_validated_against_impl'] = coverage.get('traces_validated_against_impl', 0) + n
    coverage['rule'] = coverage.get('rule', '') + (
        f' || {n} families of scaled instances (two- and three-digit bounds and positions, more than nine groups / operands / assertions, deep nesting, long literals, '
        'names, texts and files, many matches, many-digit numbers) against structurally computed expectations')
