"""Per-property monitors for the DSL value graph.  Each judges one transition locally."""
import re

from . import dsl, rx, env
from .common import V

EX = env.exceptions


def _code_prefix(tr, spelling=0):
    names = ['x', 'y']
    lines = ['%s = %s' % (names[i], s.expr) for i, s in enumerate(tr.operands)]
    lines.append('r = ' + tr.op.spellings[spelling][1].format(*names[:len(tr.operands)]))
    return lines


def _opkey(tr):
    return tr.op.label() + '|' + '|'.join(s.expr for s in tr.operands)


def _exc_name(e):
    return type(e).__name__


def _spelling_code(tr, lab_a, lab_b):
    """snippet asserting that two spellings of a transition build equivalent patterns"""
    names = ['x', 'y']
    lines = ['%s = %s' % (names[i], s.expr) for i, s in enumerate(tr.operands)]
    tm = dict(tr.op.spellings)

    def src(lab):
        if lab in tm:
            return tm[lab].format(*names[:len(tr.operands)])
        args = list(names[:len(tr.operands)])
        if lab.startswith('class-str'):
            pos = int(lab[-1])
            args[pos] = repr(tr.operands[pos].lit)
            return tr.op.spellings[1][1].format(*args)
        if lab == 'method-str':
            args[1] = repr(tr.operands[1].lit)
            return tr.op.spellings[0][1].format(*args)
        if lab == 'add-str':
            return 'x + %r' % tr.operands[1].lit
        if lab == 'radd-str':
            return '%r + y' % tr.operands[0].lit
        raise KeyError(lab)
    lines.append('a = ' + src(lab_a))
    lines.append('b = ' + src(lab_b))
    lines += ['from mc import rx', "assert rx.equiv(str(a), str(b))[0] in ('tree', 'texts'), (str(a), str(b))"]
    return '\n'.join(lines)


def _law_code(tr, lab, expected):
    """snippet asserting one empty-pattern law on one spelling"""
    names = ['x', 'y']
    lines = ['%s = %s' % (names[i], s.expr) for i, s in enumerate(tr.operands)]
    tm = dict(tr.op.spellings)
    src = tm.get(lab, tr.op.spellings[0][1]).format(*names[:len(tr.operands)])
    if expected[0] == 'raise':
        lines += ['try:', '    r = ' + src, 'except %s:' % expected[1], '    pass', 'else:',
                  "    raise AssertionError('accepted: ' + str(r))"]
    else:
        lines += ['r = ' + src, 'from mc import rx', 'want = %r' % expected[1],
                  "assert str(r) == want or ((str(r) == '') == (want == '') and rx.equiv(str(r), want)[0] in ('tree', 'texts')), str(r)"]
    return '\n'.join(lines)


class Monitor:
    pid = None

    def on_impure(self, root, op, operands, first, again, unary_srcs, acc):
        """the same call on the same object gave another result after the object had been used by other operations"""
        names = ['x', 'y']
        call = op.spellings[0][1].format(*names[:len(operands)])
        lines = ['%s = %s' % (names[i], s_.expr) for i, s_ in enumerate(operands)]
        lines += ['def outcome(f):', '    try:', "        return ('ok', str(f()))", '    except Exception as e:',
                  "        return ('raise', type(e).__name__)",
                  'a = outcome(lambda: %s)' % call,
                  '# every unary operation of the level, applied once to the same object',
                  'for f in [%s]:' % ', '.join('lambda: ' + u for u in unary_srcs),
                  '    outcome(f)',
                  'b = outcome(lambda: %s)' % call, 'assert a == b, (a, b)']
        acc.viol.append(V(
            f'{self.pid}|impure|{op.label()}|' + '|'.join(s_.expr for s_ in operands),
            f"{call} with x = {operands[0].expr}: {first!r} the first time, {again!r} after the object had been used by other operations",
            '\n'.join(lines)))

    def on_transition(self, tr, succ, acc):
        raise NotImplementedError


# ----------------------------------------------------------------------------------
class C02(Monitor):
    """composition == fully parenthesised composition of the operands' own patterns"""
    pid = 'C02'

    def __init__(self, budget=1500):
        self.budget = budget

    def on_transition(self, tr, succ, acc):
        # (a) all spellings agree
        sigs = [(lab, dsl.outcome_sig(o)) for lab, o in tr.outcomes]
        if tr.op.name == 'either' and '' in [s.text for s in tr.operands]:
            # `empty.either(x, on_right=False)` puts the empty pattern first: left open by the documentation
            sigs = [x for x in sigs if x[0] != 'left']
        oks = [x for x in sigs if x[1][0] == 'ok']   # raise-vs-ok disagreements belong to C04/C09/C10
        first = oks[0][1] if oks else None
        for lab, sig in oks[1:]:
            if sig != first:
                acc.count('spelling_textual_difference')
                if rx.equiv(sig[1], first[1], self.budget)[0] not in ('tree', 'texts'):
                    acc.viol.append(V(
                        'C02|spelling|' + _opkey(tr) + '|' + lab,
                        f"spellings of {tr.expr} disagree: {oks[0][0]} -> {first!r}, {lab} -> {sig!r}",
                        _spelling_code(tr, oks[0][0], lab),
                        outcomes=[(lab, repr(sig)) for lab, sig in sigs]))
        acc.count('spellings_compared', len(sigs) - 1)
        if tr.result is None or tr.op.family == 'group':
            return
        ref = tr.ref
        if ref is None or isinstance(ref, tuple):
            acc.count('unspecified_by_documentation')
            return
        verdict, detail = rx.equiv(str(tr.result), ref, self.budget)
        acc.count('decided_by_' + verdict)
        if verdict == 'error_b':
            return  # reference itself is not a regex (e.g. variable-width lookbehind): C10/C03 territory
        if verdict in ('diff', 'error_a'):
            acc.viol.append(V(
                'C02|' + _opkey(tr) + '|' + ('uncompilable' if verdict == 'error_a' else 'not-equivalent'),
                f"{tr.expr} -> {str(tr.result)!r} is not equivalent to the parenthesised composition {ref!r}: {detail}",
                '\n'.join(_code_prefix(tr) + [
                    'from mc import rx',
                    'ref = %r' % ref,
                    "v = rx.equiv(str(r), ref)",
                    "assert v[0] in ('tree', 'texts'), (str(r), ref, v)"]),
                observed=str(tr.result), expected=ref, witness=detail))


# ----------------------------------------------------------------------------------
DOCUMENTED = {
    'quant': {'CannotBeRepeatedException'},
    'lookbehind': {'NonFixedWidthPatternException'},
    'neglookbehind': {'NonFixedWidthPatternException', 'EmptyNegativeAssertionException'},
    'neglookahead': {'EmptyNegativeAssertionException'},
}


class C03(Monitor):
    """documented exception, or a compilable and faithfully exportable pattern"""
    pid = 'C03'

    def __init__(self, budget=1500):
        self.budget = budget

    def on_transition(self, tr, succ, acc):
        allowed = DOCUMENTED.get(tr.op.family, set())
        seen = set()
        for i, (lab, (kind, val)) in enumerate(tr.outcomes):
            if kind == 'raise':
                name = _exc_name(val)
                acc.count('raised_' + name)
                if name in allowed and dsl.is_lib_exc(val):
                    continue
                if name in seen:
                    continue
                seen.add(name)
                acc.viol.append(V(
                    'C03|' + _opkey(tr) + '|raised:' + name,
                    f"{tr.expr} ({lab}) raised {name}: {str(val)[:120]}",
                    '\n'.join(_code_prefix(tr)),
                    observed=name))
            else:
                if i > 0 and str(val) == str(tr.outcomes[0][1][1] if tr.outcomes[0][1][0] == 'ok' else None):
                    continue
                self.check_value(tr, lab, val, acc)

    def check_value(self, tr, lab, val, acc):
        text = str(val)
        ok, _ = rx.compiles(text)
        acc.count('values_checked')
        if not ok and tr.op.family == 'call' and re.search(r'unknown group name|invalid group reference', rx.compile_error(text) or ''):
            acc.count('undefined_group_reference_excepted_by_the_property')
            return
        if not ok and rx.inherent_failure(tr.ref, [o.text for o in tr.operands]):
            acc.count('uncompilable_by_construction_of_the_expression')
            return
        if not ok:
            try:
                re.compile(text, rx.FLAGS)
                msg = ''
            except re.error as e:
                msg = str(e)
            except RecursionError:
                msg = 'RecursionError'
            acc.viol.append(V(
                'C03|' + _opkey(tr) + '|uncompilable',
                f"{tr.expr} ({lab}) returned {text!r} which re rejects: {msg}",
                '\n'.join(_code_prefix(tr) + ['import re', 'from mc import rx',
                                              'assert rx.compiles(str(r))[0], str(r)']),
                observed=text))
            return
        try:
            exported = val.get_pattern()
            flagged = val.get_pattern(include_flags=True)
        except Exception as e:  # noqa: BLE001
            acc.viol.append(V('C03|' + _opkey(tr) + '|export-raised:' + _exc_name(e),
                              f"{tr.expr}: get_pattern() raised {_exc_name(e)}",
                              '\n'.join(_code_prefix(tr) + ['r.get_pattern()'])))
            return
        bad = None
        if not exported.isprintable():
            bad = 'not printable'
        elif flagged != '/' + exported + '/gmsu':
            bad = 'include_flags form differs'
        elif exported != text:
            v, detail = rx.equiv(exported, text, self.budget)
            acc.count('export_decided_by_' + v)
            if v not in ('tree', 'texts'):
                bad = f'exported text not equivalent: {detail}'
        if bad:
            acc.viol.append(V(
                'C03|' + _opkey(tr) + '|export',
                f"{tr.expr}: get_pattern() -> {exported!r} for pattern {text!r}: {bad}",
                '\n'.join(_code_prefix(tr) + [
                    'from mc import rx', 'e = r.get_pattern()',
                    "assert e.isprintable() and r.get_pattern(True) == '/' + e + '/gmsu'",
                    "assert rx.equiv(e, str(r))[0] in ('tree', 'texts')"]),
                observed=exported))


# ----------------------------------------------------------------------------------
def _upper(op):
    n, p = op.name, op.params
    if n == 'optional':
        return 1
    if n in ('indefinite', 'one_or_more', 'at_least'):
        return None
    if n == 'exactly':
        return p[0]
    if n == 'at_most':
        return p[0]
    if n == 'at_least_at_most':
        return p[1]
    raise KeyError(n)


def _has_anchor_or_poslook(t):
    if t[0] == 'at' and t[1] in ('AT_BEGINNING', 'AT_END', 'AT_BEGINNING_STRING', 'AT_END_STRING'):
        return True
    if t[0] == 'look' and not t[2]:
        return True
    return any(isinstance(x, tuple) and _has_anchor_or_poslook(x) for x in t[1:])


def _spell_index(tr, lab):
    labs = [l for l, _ in tr.op.spellings]
    return labs.index(lab) if lab in labs else 0


class C09(Monitor):
    """CannotBeRepeatedException exactly for direct anchor / positive-lookaround instances"""
    pid = 'C09'

    def on_transition(self, tr, succ, acc):
        if tr.op.family != 'quant':
            return
        x = tr.operands[0]
        hi = _upper(tr.op)
        can_repeat = hi is None or hi > 1
        direct = x.origin in dsl.ASSERTION_OPS and not x.alias and x.text != ''
        try:
            tree = rx.parse(x.text).tree
        except re.error:
            acc.count('operand_unparsable')
            return
        clean = not _has_anchor_or_poslook(tree)
        raised = [lab for lab, (k, v) in tr.outcomes if k == 'raise' and _exc_name(v) == 'CannotBeRepeatedException']
        if direct and can_repeat and not clean:
            acc.count('must_raise')
            missing = [lab for lab, (k, v) in tr.outcomes
                       if not (k == 'raise' and _exc_name(v) == 'CannotBeRepeatedException')]
            if missing:
                acc.viol.append(V(
                    'C09|' + _opkey(tr) + '|accepted',
                    f"{tr.expr}: repeating quantifier accepted on a direct {x.origin} instance {x.text!r} ({missing})",
                    '\n'.join(_code_prefix(tr)[:-1] + [
                        'try:', '    ' + _code_prefix(tr)[-1],
                        'except CannotBeRepeatedException:', '    pass',
                        'else:', "    raise AssertionError('accepted: ' + str(r))"])))
        elif clean or not can_repeat:
            acc.count('must_accept')
            if raised:
                acc.viol.append(V(
                    'C09|' + _opkey(tr) + '|refused',
                    f"{tr.expr}: CannotBeRepeatedException for operand {x.text!r} "
                    f"({'no anchor or positive lookaround inside' if clean else 'quantifier cannot repeat'}) ({raised})",
                    '\n'.join(_code_prefix(tr, _spell_index(tr, raised[0])))))
        else:
            acc.count('unspecified_buried_anchor')


# ----------------------------------------------------------------------------------
def _has_ref(t):
    if t[0] in ('ref', 'cond'):
        return True
    return any(isinstance(x, tuple) and _has_ref(x) for x in t[1:])


class C10(Monitor):
    """lookbehinds accepted iff the assertion pattern has one fixed width"""
    pid = 'C10'

    def on_transition(self, tr, succ, acc):
        if tr.op.family not in ('lookbehind', 'neglookbehind'):
            return
        y = tr.operands[1]
        if y.text == '':
            acc.count('empty_assertion')
            return
        try:
            p = rx.parse(y.text)
        except re.error:
            acc.count('operand_unparsable')
            return
        if p.width is None:
            acc.count('width_unspecified')
            return
        if _has_ref(p.tree):
            # references to groups defined outside the assertion: the width is computed with every such group having one fixed
            # width (the reference context); if it is variable even then it is variable in every context, and if it is fixed
            # then no construction-time check can know better
            acc.count('width_relative_to_referenced_groups')
        lo, hi = p.width
        fixed = lo == hi
        nf = [lab for lab, (k, v) in tr.outcomes if k == 'raise' and _exc_name(v) == 'NonFixedWidthPatternException']
        if fixed:
            acc.count('fixed_width')
            if nf:
                acc.viol.append(V(
                    'C10|' + _opkey(tr) + '|refused',
                    f"{tr.expr}: assertion pattern {y.text!r} has fixed width {lo} but was refused",
                    '\n'.join(_code_prefix(tr))))
            elif tr.result is not None and not rx.compiles(str(tr.result))[0] \
                    and not rx.inherent_failure(tr.ref, [o.text for o in tr.operands]):
                # fixed width and accepted, yet the result does not compile
                acc.viol.append(V(
                    'C10|' + _opkey(tr) + '|uncompilable',
                    f"{tr.expr}: accepted fixed-width assertion but {str(tr.result)!r} does not compile",
                    '\n'.join(_code_prefix(tr) + ['from mc import rx', 'assert rx.compiles(str(r))[0], str(r)'])))
        else:
            acc.count('variable_width')
            missing = [lab for lab, (k, v) in tr.outcomes
                       if not (k == 'raise' and _exc_name(v) == 'NonFixedWidthPatternException')]
            if missing:
                acc.viol.append(V(
                    'C10|' + _opkey(tr) + '|accepted',
                    f"{tr.expr}: assertion pattern {y.text!r} has width {lo}..{hi} but was accepted ({missing})",
                    '\n'.join(_code_prefix(tr)[:-1] + [
                        'try:', '    ' + _code_prefix(tr)[-1],
                        'except NonFixedWidthPatternException:', '    pass',
                        'else:', "    raise AssertionError('accepted: ' + str(r))"])))


# ----------------------------------------------------------------------------------
class C05(Monitor):
    """documented laws of the empty pattern (equality on the emitted text)"""
    pid = 'C05'

    def on_transition(self, tr, succ, acc):
        ops = tr.operands
        texts = [s.text for s in ops]
        fam, name = tr.op.family, tr.op.name
        if succ is not None and succ.text == '' and succ.obj._get_type() != env.pre._Type.Empty:
            acc.viol.append(V('C05|' + _opkey(tr) + '|empty-not-typed-empty',
                              f"{tr.expr} is the empty pattern but is typed {succ.obj._get_type()}",
                              '\n'.join(_code_prefix(tr) + ["assert r._get_type() == pre._Type.Empty"])))
        expected = None     # expected text, or an exception class name
        if fam in ('quant', 'group') and texts[0] == '':
            expected = ('text', '')
        elif name in ('concat',) and (texts[0] == '' or texts[1] == ''):
            expected = ('text', texts[1] if texts[0] == '' else texts[0])
        elif name == 'enclose' and texts[1] == '':
            expected = ('text', texts[0])
        elif name == 'either' and texts[1] == '':
            expected = ('text', texts[0])
        elif name in ('followed_by', 'preceded_by', 'enclosed_by') and texts[1] == '':
            expected = ('text', texts[0])
        elif name in ('not_followed_by', 'not_preceded_by', 'not_enclosed_by') and texts[1] == '':
            expected = ('raise', 'EmptyNegativeAssertionException')
        elif fam == 'quant' and tr.op.name == 'exactly' and tr.op.params == (0,):
            expected = ('text', '')
        if expected is None:
            acc.count('no_empty_operand')
            return
        acc.count('laws_checked')
        for lab, (k, v) in tr.outcomes:
            if name == 'either' and lab == 'left':
                # x.either(empty) spelled from the other side is `empty.either(x, on_right=False)`:
                # pinned by the suite as 'x|' ... the documentation leaves it open
                continue
            got = ('text', str(v)) if k == 'ok' else ('raise', _exc_name(v))
            if got != expected and got[0] == 'text' and expected[0] == 'text' \
                    and (got[1] == '') == (expected[1] == '') \
                    and rx.equiv(got[1], expected[1])[0] in ('tree', 'texts'):
                acc.count('law_holds_up_to_redundant_grouping')
                continue
            if got != expected:
                acc.viol.append(V(
                    'C05|' + _opkey(tr) + '|' + lab,
                    f"{tr.expr} ({lab}): empty-pattern law expects {expected}, got {got}",
                    _law_code(tr, lab, expected),
                    expected=expected, observed=got))


# ----------------------------------------------------------------------------------
class C20(Monitor):
    """operands are never changed by being used"""
    pid = 'C20'

    def on_transition(self, tr, succ, acc):
        acc.count('operand_snapshots', len(tr.before))
        for i, (b, a) in enumerate(zip(tr.before, tr.after)):
            if b != a:
                acc.viol.append(V(
                    'C20|' + _opkey(tr) + '|operand%d-changed' % i,
                    f"{tr.expr}: operand {i} changed from {b} to {a}",
                    '\n'.join(_code_prefix(tr)[:-1] + [
                        'before = (str(x), x._get_type(), x._is_repeatable())',
                        _code_prefix(tr)[-1],
                        'assert before == (str(x), x._get_type(), x._is_repeatable())'])))
        # the value of an expression depends only on its operands: rebuild from fresh objects
        if succ is not None:
            try:
                again = dsl.build(succ.expr)
                same = dsl.canon(again) == succ.key()
            except Exception as e:  # noqa: BLE001
                same = False
            acc.count('rebuilt_from_fresh')
            if not same:
                acc.viol.append(V(
                    'C20|' + _opkey(tr) + '|rebuild-differs',
                    f"{tr.expr}: rebuilding from fresh sub-objects gives a different value",
                    '\n'.join(['a = ' + succ.expr, 'b = ' + succ.expr, 'assert str(a) == str(b)'])))


# ----------------------------------------------------------------------------------
def _renumber(t, counter):
    """re-number capture groups in opening order"""
    if t[0] == 'cap':
        counter[0] += 1
        idx = counter[0]
        return ('cap', idx, t[2], _renumber(t[3], counter))
    return tuple(_renumber(x, counter) if isinstance(x, tuple) and x and isinstance(x[0], str) else x for x in t)


def renumber(t):
    return _renumber(t, [0])


def caps_of(t, out=None):
    out = [] if out is None else out
    if t[0] == 'cap':
        out.append(t[2])
    for x in t[1:]:
        if isinstance(x, tuple) and x and isinstance(x[0], str):
            caps_of(x, out)
    return out


def _has_own_ref(t):
    if t[0] in ('ref', 'cond') and t[1] == 'own':
        return True
    return any(isinstance(x, tuple) and x and isinstance(x[0], str) and _has_own_ref(x) for x in t[1:])


class C08(Monitor):
    """capturing-group structure predicted by a tree model of capture()/group()"""
    pid = 'C08'
    IGN = re.IGNORECASE

    @staticmethod
    def single_plain_group(text, inctx):
        """the whole text is one `(?:...)` group (which the parser would inline)"""
        if not (text.startswith('(?:') and text.endswith(')')):
            return False
        try:
            rx.parse(text[3:-1], inctx)
            return True
        except re.error:
            return False

    def expected(self, op, T, plain):
        if op.name == 'capture':
            name = op.params[0]
            if T[0] == 'cap' and not plain:
                return ('cap', 0, name if name is not None else T[2], T[3])
            return ('cap', 0, name, T)
        ci = op.params[0]
        if plain:
            body = T
        elif T[0] == 'cap':
            body = T[3]
        elif T[0] == 'flag':
            body = T[3]
        else:
            body = T
        return ('flag', int(self.IGN), 0, body) if ci else body

    def check_sum(self, tr, acc):
        """concatenation / alternation: every capture of every operand survives, in left-to-right order, with its name"""
        if tr.result is None:
            return
        caps = []
        for o in (tr.operands if tr.op.name != 'enclose' else [tr.operands[1], tr.operands[0], tr.operands[1]]):
            if o.text == '':
                continue
            try:
                caps += caps_of(rx.parse(o.text).tree)
            except re.error:
                return
        names = [n for n in caps if n]
        if len(set(names)) != len(names):
            return
        for lab, (k, v) in tr.outcomes:
            if k != 'ok' or (tr.op.name == 'either' and lab == 'left' and '' in [o.text for o in tr.operands]):
                continue
            try:
                got = caps_of(rx.parse(str(v)).tree)
            except re.error:
                continue
            want = caps
            acc.count('capture_lists_compared')
            if got != want:
                acc.viol.append(V(
                    'C08|' + _opkey(tr) + '|captures|' + lab,
                    f"{tr.expr} ({lab}) -> {str(v)!r} has capture groups {got}, the operands spell out {want}",
                    _spelling_code(tr, lab, lab).replace("assert rx.equiv(str(a), str(b))[0] in ('tree', 'texts'), (str(a), str(b))",
                                                         "from mc.monitors import caps_of\nassert caps_of(rx.parse(str(a)).tree) == %r, str(a)" % (want,))))
                return

    def on_transition(self, tr, succ, acc):
        if tr.op.family in ('concat', 'either', 'enclose'):
            self.check_sum(tr, acc)
            return
        if tr.op.family != 'group':
            return
        x = tr.operands[0]
        if tr.result is None:
            acc.viol.append(V('C08|' + _opkey(tr) + '|raised:' + _exc_name(tr.exc),
                              f"{tr.expr} raised {_exc_name(tr.exc)}", '\n'.join(_code_prefix(tr))))
            return
        if x.text == '':
            return   # C05
        try:
            px = rx.parse(x.text)
        except re.error:
            acc.count('operand_unparsable')
            return
        if _has_own_ref(px.tree):
            acc.count('operand_refers_to_own_group_unspecified')
            return
        if len(set(n for n in caps_of(px.tree) if n)) != len([n for n in caps_of(px.tree) if n]):
            return
        exp = renumber(self.expected(tr.op, px.tree, self.single_plain_group(x.text, px.inctx)))
        names = [n for n in caps_of(exp) if n]
        if len(set(names)) != len(names):
            acc.count('duplicate_names_out_of_scope')
            return
        text = str(tr.result)
        acc.count('group_transitions_judged')
        try:
            pr = rx.parse(text, px.inctx)
        except re.error as e:
            acc.viol.append(V('C08|' + _opkey(tr) + '|uncompilable',
                              f"{tr.expr} -> {text!r} which re rejects: {e}",
                              '\n'.join(_code_prefix(tr) + ['from mc import rx', 'assert rx.compiles(str(r))[0], str(r)'])))
            return
        if pr.tree == exp:
            acc.count('decided_by_tree')
            return
        # different trees: compare behaviour, including groups
        try:
            ref = rx.render(exp)
        except rx.Unparsable:
            acc.count('unrenderable')
            return
        v, detail = rx.equiv(text, ref)
        acc.count('decided_by_' + v)
        if v in ('tree', 'texts') :
            return
        if v == 'error_b':
            return
        acc.viol.append(V(
            'C08|' + _opkey(tr) + '|structure',
            f"{tr.expr} -> {text!r}; the documented group structure is {ref!r}: {detail}",
            '\n'.join(_code_prefix(tr) + ['from mc import rx', 'ref = %r' % ref,
                                          "v = rx.equiv(str(r), ref)",
                                          "assert v[0] in ('tree', 'texts'), (str(r), ref, v)"]),
            observed=text, expected=ref))


class C02Groups(C08):
    """C02 also speaks about captured substrings: capture()/group() transitions of the general graph are judged by the same
    documented group-structure model that C08 uses on its own (deeper, narrower) graph"""
    pid = 'C02'

    def on_transition(self, tr, succ, acc):
        if tr.op.family != 'group':
            return
        before = len(acc.viol)
        C08.on_transition(self, tr, succ, acc)
        for v in acc.viol[before:]:
            if v['key'].startswith('C08|'):
                v['key'] = 'C02|groups|' + v['key'][4:]
