"""Entry point: python -m mc.check <property> --tier quick|thorough"""
import argparse
import importlib
import os
import sys
import traceback


def main():
    ap = argparse.ArgumentParser()
    ap.add_argument('pid')
    ap.add_argument('--tier', default=os.environ.get('VERIF_TIER', 'quick'), choices=['quick', 'thorough'])
    ap.add_argument('--collect', default=None, help='developer tool: dump all violations to this file, exit 0')
    a = ap.parse_args()
    seed = int(os.environ.get('VERIF_SEED', '0') or 0)
    # one scratch directory per run: workers and the fresh interpreters of the confirmation step inherit TMPDIR,
    # so everything they create is removed with it
    import shutil
    import tempfile
    base = tempfile.mkdtemp(prefix='mc_run_')
    os.environ['TMPDIR'] = base
    tempfile.tempdir = base
    try:
        return _main(a, seed)
    finally:
        shutil.rmtree(base, ignore_errors=True)


def _main(a, seed):
    try:
        from . import common
        from .props import REGISTRY
        if a.pid not in REGISTRY:
            print(f'INTERNAL: no check for {a.pid}')
            return 2
        mod = importlib.import_module('mc.props.' + REGISTRY[a.pid])
        run = common.Run(a.pid, a.tier, seed)
        coverage, assumptions = getattr(mod, 'run_' + a.pid)(run)
        # documented default arguments: a call relying on defaults equals the call that spells them out
        from .props import defaults
        defaults.check(run, a.pid, coverage)
        # meta patterns are ordinary values: plain/compiled x string/file x matching method (C15-C19)
        from .props import apistate
        apistate.check(run, a.pid, coverage)
        # scaled instances: sizes beyond the exhaustive bounds (two-digit counts and group numbers, long texts, ...)
        from .props import scale
        scale.check(run, a.pid, coverage)
        # history differential: the value of a constructor call must not depend on what was built before it
        from .props import hd
        exprs = hd.exprs_for(a.pid, a.tier)
        if exprs:
            n = common.history_differential(run, exprs)
            coverage['transitions'] = coverage.get('transitions', 0) + n
            coverage['traces_validated_against_impl'] = coverage.get('traces_validated_against_impl', 0) + n
            coverage['rule'] = coverage.get('rule', '') + (
                f' || history differential: {len(exprs)} constructor calls evaluated in fresh interpreters in four orders '
                '(forward, reverse, doubled, odd-then-even); every evaluation of the same call must give the same value')
            assumptions = list(assumptions) + ['the history differential explores four construction orders of a fixed list, not all orders']
        rc = run.finish(coverage, assumptions, collect_path=a.collect)
        return 0 if a.collect else rc
    except SystemExit:
        raise
    except BaseException:  # noqa: BLE001
        traceback.print_exc()
        print(f'INTERNAL: check {a.pid} failed in the harness (no verdict about pregex)')
        return 2


if __name__ == '__main__':
    sys.exit(main())
