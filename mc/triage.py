"""Developer tool (never run by a check): regenerates the key lists of the open findings.

  python -m mc.triage C02 C03 ... [--tiers quick,thorough]

For each property/tier it runs the check in --collect mode, assigns every violation to an open
finding with the finding's `match` predicate below (input + failure mode), and rewrites
known/<finding>.keys.  Violations that no predicate claims are printed: they are either new
defects to triage by hand or false alarms to fix in the oracle.  At check time only the key
lists are consulted, so an input that is not listed is always reported as a VIOLATION.
"""
import json
import os
import re
import subprocess
import sys

from .common import VERIF, KNOWN_FILE

PREDICATES = {
    # finding id -> predicate over the violation record
    'F01': lambda r: r['key'].split('|')[0] in ('C02', 'C03') and r['key'].endswith('|uncompilable')
    and re.search(r'\\[1-9]\d', r.get('observed', '')) is not None and 'Backreference(1)' in r['key'],
}


def main(argv):
    tiers = ['quick', 'thorough']
    pids = []
    for a in argv:
        if a.startswith('--tiers='):
            tiers = a.split('=', 1)[1].split(',')
        else:
            pids.append(a)
    data = json.load(open(KNOWN_FILE))
    open_f = [f for f in data['findings'] if f['status'] == 'open']
    existing = {}
    for f in open_f:
        path = os.path.join(VERIF, f['keys_file'])
        keys = set()
        if os.path.exists(path):
            for line in open(path, encoding='utf-8'):
                line = line.rstrip('\n')
                if line and not line.startswith('#'):
                    p, _, k = line.partition('\t')
                    keys.add((p, json.loads(k)))
        existing[f['id']] = keys
    # drop the keys of the properties being regenerated (for the tiers being regenerated we cannot
    # tell them apart, so regenerate all tiers of a property together)
    for fid in existing:
        existing[fid] = {(p, k) for (p, k) in existing[fid] if p not in pids}
    unclaimed = 0
    for pid in pids:
        for tier in tiers:
            out = f'/tmp/triage_{pid}_{tier}.jsonl'
            subprocess.run([sys.executable, '-m', 'mc.check', pid, '--tier', tier, '--collect', out],
                           cwd=VERIF, stdout=subprocess.DEVNULL)
            for line in open(out, encoding='utf-8'):
                r = json.loads(line)
                for f in open_f:
                    pred = PREDICATES.get(f['id'])
                    if pred and pid in f['properties'] and pred(r):
                        existing[f['id']].add((pid, r['key']))
                        break
                else:
                    unclaimed += 1
                    if unclaimed <= 40:
                        print('UNCLAIMED', pid, tier, r['what'][:300])
            os.remove(out)
    for f in open_f:
        path = os.path.join(VERIF, f['keys_file'])
        with open(path, 'w', encoding='utf-8') as fh:
            fh.write(f"# keys (property<TAB>json string) of finding {f['id']}: {f['title']}\n")
            for p, k in sorted(existing[f['id']]):
                fh.write(p + '\t' + json.dumps(k) + '\n')
        print(f['id'], len(existing[f['id']]), 'keys')
    print('unclaimed:', unclaimed)


if __name__ == '__main__':
    main(sys.argv[1:])
