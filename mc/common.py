"""Shared plumbing: violations, replay files, known findings, evidence, worker pool."""
import hashlib
import json
import multiprocessing as mp
import os
import subprocess
import sys
import time

from . import env

VERIF = env.VERIF
EVIDENCE_DIR = os.path.join(VERIF, 'evidence')
REPLAY_DIR = os.path.join(VERIF, 'replays')
KNOWN_FILE = os.path.join(VERIF, 'known_findings.json')
NPROC = int(os.environ.get('VERIF_JOBS', '0')) or min(16, os.cpu_count() or 1)


class Internal(Exception):
    """The harness itself is broken (never a verdict about pregex)."""


# ----------------------------------------------------------------------------------
# violations
# ----------------------------------------------------------------------------------
def V(key, what, code, **details):
    """A violation record.  `key` identifies input + failure mode, `code` is a
    self-contained python snippet (evaluated in mc.env.NS) that raises
    AssertionError (or another exception) while the defect is present and runs
    clean once it is gone."""
    d = {'key': key, 'what': what, 'code': code}
    d.update(details)
    return d


def sha(key):
    return hashlib.sha1(key.encode('utf-8', 'surrogatepass')).hexdigest()[:16]


def load_known(pid):
    """-> (open: {key: finding}, findings list).  Never written at run time."""
    if not os.path.exists(KNOWN_FILE):
        return {}, []
    data = json.load(open(KNOWN_FILE, encoding='utf-8'))
    keymap, findings = {}, []
    for f in data.get('findings', []):
        if f.get('status') != 'open':
            continue
        kf = os.path.join(VERIF, f['keys_file'])
        n = 0
        if os.path.exists(kf):
            for line in open(kf, encoding='utf-8'):
                line = line.rstrip('\n')
                if not line or line.startswith('#'):
                    continue
                p, _, k = line.partition('\t')
                if p == pid:
                    keymap[json.loads(k)] = f
                    n += 1
        if n:
            findings.append(f)
    return keymap, findings


class Run:
    def __init__(self, pid, tier, seed):
        self.pid, self.tier, self.seed = pid, tier, seed
        self.t0 = time.time()
        self.violations = {}      # key -> record (first one wins, deterministic order)
        self.counters = {}
        self.samples = []
        self.outcomes = set()
        self.known_map, self.known_findings = load_known(pid)

    # -- collection ---------------------------------------------------------------
    def add(self, records):
        for r in records:
            if r['key'] not in self.violations:
                self.violations[r['key']] = r

    def count(self, name, n=1):
        self.counters[name] = self.counters.get(name, 0) + n

    def merge_counts(self, d):
        for k, v in d.items():
            if isinstance(v, (int, float)):
                self.counters[k] = self.counters.get(k, 0) + v

    def sample(self, s, limit=12):
        if len(self.samples) < limit:
            self.samples.append(s)

    # -- reporting ----------------------------------------------------------------
    def finish(self, coverage, assumptions=(), collect_path=None):
        pid = self.pid
        matched, new = {}, []
        for key, rec in self.violations.items():
            f = self.known_map.get(key)
            if f is not None:
                matched.setdefault(f['id'], []).append(rec)
            else:
                new.append(rec)
        if collect_path:
            # developer tool (mc.triage): dump every violation, exit 0
            with open(collect_path, 'w', encoding='utf-8') as fh:
                for key, rec in self.violations.items():
                    fh.write(json.dumps(rec, ensure_ascii=True, default=str) + '\n')
        new, unconfirmed = confirm(new)
        for f in self.known_findings:
            n = len(matched.get(f['id'], []))
            if n:
                print(f"KNOWN-FINDING: property={pid} {f['id']} {f['title']} "
                      f"(witness {f['witness']}; {n} listed inputs reproduced)")
        os.makedirs(os.path.join(REPLAY_DIR, pid), exist_ok=True)
        shown = 0
        for n_written, rec in enumerate(new):
            if n_written >= 400:
                break          # disk is finite: the first 400 violations get a replay file, the rest are counted below
            path = os.path.join(REPLAY_DIR, pid, sha(rec['key']) + '.json')
            rec = dict(rec, property=pid, tier=self.tier)
            with open(path, 'w', encoding='utf-8') as fh:
                json.dump(rec, fh, indent=1, ensure_ascii=True, default=str)
            if shown < 20:
                print(f"VIOLATION property={pid} replay={path}")
                print(f"  {rec['what']}"[:400])
                shown += 1
        if len(new) > shown:
            print(f"... and {len(new) - shown} more violations of {pid} (replay files written for the first {min(len(new), 400)})")
        cov = dict(coverage)
        cov.setdefault('samples', self.samples or ['(none)'])
        cov['counters'] = dict(sorted(self.counters.items()))
        cov['known_findings_matched'] = {k: len(v) for k, v in sorted(matched.items())}
        cov['violations_new'] = len(new)
        cov['unconfirmed_outcomes'] = [r['key'] for r in unconfirmed][:50]
        cov['unconfirmed_count'] = len(unconfirmed)
        ev = {
            'property_id': pid, 'tier': self.tier, 'seed': self.seed,
            'level': 'model_checking', 'coverage': cov,
            'assumptions': list(assumptions),
            'wall_s': round(time.time() - self.t0, 3),
            'violations': len(new),
        }
        os.makedirs(EVIDENCE_DIR, exist_ok=True)
        path = os.path.join(EVIDENCE_DIR, pid + '.json')
        with open(path, 'w', encoding='utf-8') as fh:
            json.dump(ev, fh, indent=1, ensure_ascii=True, default=str)
        validate_evidence(path)
        for k in ('states', 'transitions'):
            if not cov.get(k):
                raise Internal(f'vacuous exploration: {k}={cov.get(k)}')
        print(f"{pid} {self.tier}: states={cov.get('states')} transitions={cov.get('transitions')} "
              f"validated={cov.get('traces_validated_against_impl')} new_violations={len(new)} "
              f"known={sum(len(v) for v in matched.values())} wall={ev['wall_s']}s")
        return 1 if new else 0


_VALUE_CODE = r"""
import json, sys
sys.setrecursionlimit(1000)
from mc import env
recs = json.load(open(sys.argv[1]))
out = {}
for i, code in recs:
    ns = dict(env.NS)
    try:
        exec(code, ns)
        out[i] = repr(ns.get('OUT'))
    except BaseException as e:
        out[i] = 'EXC:' + type(e).__name__
print('VALUES ' + json.dumps(out))
"""


def confirm_values(records):
    """records carrying `value_code` claim that a value differs between interpreter configurations.  They are
    confirmed iff two real PYTHONHASHSEEDs (no set-order seam) actually produce different values."""
    import tempfile
    from concurrent.futures import ThreadPoolExecutor
    if not records:
        return [], []
    td = tempfile.mkdtemp(prefix='confirmv_')
    seen = {i: {} for i in range(len(records))}

    def one(seed, items):
        path = os.path.join(td, 'v_%d.json' % seed)
        with open(path, 'w', encoding='utf-8') as fh:
            json.dump(items, fh)
        e = dict(os.environ)
        e.update({'PYTHONHASHSEED': str(seed), 'PREGEX_VERIF_VSET': '0', 'PYTHONPATH': VERIF, 'PYTHONWARNINGS': 'ignore',
                  'PYTHONDONTWRITEBYTECODE': '1'})
        r = subprocess.run([sys.executable, '-c', _VALUE_CODE, path], capture_output=True, text=True, env=e, cwd=VERIF, timeout=1800)
        for line in r.stdout.splitlines():
            if line.startswith('VALUES '):
                return seed, json.loads(line[7:])
        raise Internal('value confirmation subprocess failed: ' + r.stderr[-600:])
    try:
        base = 64 * int(os.environ.get('VERIF_SEED', '0') or 0)
        for rno in range(8):
            todo = [i for i in seen if len(set(seen[i].values())) < 2]
            if not todo:
                break
            items = [(i, records[i]['value_code']) for i in todo[:CONFIRM_CAP]]
            with ThreadPoolExecutor(8) as ex:
                for seed, vals in ex.map(lambda s_: one(s_, items), range(base + 8 * rno, base + 8 * rno + 8)):
                    for i, v in vals.items():
                        seen[int(i)][seed] = v
    finally:
        import shutil
        shutil.rmtree(td, ignore_errors=True)
    ok, dropped = [], []
    for i, r in enumerate(records):
        vals = seen[i]
        distinct = {}
        for seed in sorted(vals):
            distinct.setdefault(vals[seed], seed)
        if len(distinct) >= 2:
            (va, sa), (vb, sb) = list(distinct.items())[:2]
            r['hashseeds'] = [sa, sb]
            r['values'] = [va[:300], vb[:300]]
            ok.append(r)
        else:
            dropped.append(r)
    return ok, dropped


_CONFIRM_CODE = r"""
import json, sys
sys.setrecursionlimit(1000)
from mc import env
recs = json.load(open(sys.argv[1]))
failing = []
for i, code in recs:
    ns = dict(env.NS)
    try:
        exec(code, ns)
    except BaseException:
        failing.append(i)
print('FAILING ' + json.dumps(failing))
"""

CONFIRM_CAP = 4000


def confirm(records):
    """Re-executes the snippet of every new violation in fresh interpreters WITHOUT the set-order
    seam, with the default recursion limit, under concrete PYTHONHASHSEEDs.  Only violations that
    fail again under at least one real interpreter configuration are reported (DESIGN.md 1.3, 6.3)."""
    if not records or os.environ.get('PREGEX_VERIF_NOCONFIRM') == '1':
        return records, []
    vrecs = [r for r in records if r.get('value_code')]
    if vrecs:
        okv, dropv = confirm_values(vrecs)
        rest, droprest = confirm([r for r in records if not r.get('value_code')])
        return rest + okv, droprest + dropv
    import tempfile
    from concurrent.futures import ThreadPoolExecutor
    pending = {i: r for i, r in enumerate(records[:CONFIRM_CAP])}
    confirmed = {}
    td = tempfile.mkdtemp(prefix='confirm_')

    def one(seed, items):
        path = os.path.join(td, 'recs_%d.json' % seed)
        with open(path, 'w', encoding='utf-8') as fh:
            json.dump(items, fh)
        e = dict(os.environ)
        e.update({'PYTHONHASHSEED': str(seed), 'PREGEX_VERIF_VSET': '0', 'PYTHONPATH': VERIF, 'PYTHONWARNINGS': 'ignore',
                  'PYTHONDONTWRITEBYTECODE': '1'})
        r = subprocess.run([sys.executable, '-c', _CONFIRM_CODE, path], capture_output=True, text=True, env=e, cwd=VERIF, timeout=1800)
        for line in r.stdout.splitlines():
            if line.startswith('FAILING '):
                return seed, json.loads(line[8:])
        raise Internal('confirmation subprocess failed: ' + r.stderr[-600:])
    try:
        base = 8 * int(os.environ.get('VERIF_SEED', '0') or 0)
        rounds = [list(range(base, base + 8))] + [list(range(base + 8 * k, base + 8 * k + 8)) for k in range(1, 8)]
        for rno, seeds in enumerate(rounds):
            if not pending:
                break
            if rno > 0:
                # only order-dependent outcomes are worth more seeds
                if not any(r.get('order_dependent') for r in pending.values()):
                    break
            items = [(i, r['code']) for i, r in pending.items() if rno == 0 or r.get('order_dependent')]
            with ThreadPoolExecutor(8) as ex:
                for seed, failing in ex.map(lambda s: one(s, items), seeds):
                    for i in failing:
                        if i in pending:
                            rec = pending.pop(i)
                            rec['hashseed'] = seed
                            confirmed[i] = rec
    finally:
        import shutil
        shutil.rmtree(td, ignore_errors=True)
    # Only outcomes that can depend on the interpreter configuration (set order, recursion limit) need a real
    # interpreter to vouch for them.  Anything else was observed on the real code in this very process: if its
    # snippet does not fail again, the snippet is incomplete, not the observation, so it is still reported.
    import re as _re
    kept, dropped = {}, []
    for i in sorted(pending):
        r = pending[i]
        sensitive = r.get('order_dependent') or r.get('order_sensitive') or 'RecursionError' in r['key'] \
            or _re.search(r'\bAny[A-Z(]', r['key']) is not None
        if sensitive:
            dropped.append(r)
        else:
            r['replay_mismatch'] = True
            kept[i] = r
    allc = dict(confirmed)
    allc.update(kept)
    out = [allc[i] for i in sorted(allc)] + records[CONFIRM_CAP:]
    return out, dropped


def validate_evidence(path):
    schema = '/root/.vp/EVIDENCE.schema.json'
    if not os.path.exists(schema):
        schema = os.path.join(VERIF, 'mc', 'EVIDENCE.schema.json')
    code = ("import json,sys,jsonschema;"
            "jsonschema.validate(json.load(open(sys.argv[1])), json.load(open(sys.argv[2])))")
    try:
        r = subprocess.run(['python3-vt', '-c', code, path, schema], capture_output=True, text=True, timeout=120)
    except (FileNotFoundError, subprocess.TimeoutExpired):
        return  # validator not available: nothing to say
    if r.returncode != 0:
        raise Internal('evidence file does not validate: ' + r.stderr[-800:])


# ----------------------------------------------------------------------------------
# worker pool (fork; tasks are chunks, results merged in input order => deterministic)
# ----------------------------------------------------------------------------------
def chunks(seq, n):
    seq = list(seq)
    return [seq[i:i + n] for i in range(0, len(seq), n)]


class _Guard:
    """runs fn in the worker and turns any exception into a picklable marker (an exception whose
    constructor needs arguments cannot cross the pipe and would hang the pool)"""

    def __init__(self, fn):
        self.fn = fn

    def __call__(self, task):
        try:
            return ('ok', self.fn(task))
        except BaseException:  # noqa: BLE001
            import traceback
            return ('err', traceback.format_exc()[-3000:])


def pmap(fn, tasks, procs=None):
    tasks = list(tasks)
    procs = procs or NPROC
    if procs <= 1 or len(tasks) <= 1:
        return [fn(t) for t in tasks]
    ctx = mp.get_context('fork')
    with ctx.Pool(min(procs, len(tasks))) as pool:
        res = pool.map(_Guard(fn), tasks, chunksize=1)
    out = []
    for kind, val in res:
        if kind == 'err':
            raise Internal('worker failed:\n' + val)
        out.append(val)
    return out


def run_py(code, hashseed=None, timeout=600, args=(), env=None):
    """Runs `code` in a fresh interpreter bound to the working tree."""
    e = dict(os.environ)
    if env:
        e.update(env)
    if hashseed is not None:
        e['PYTHONHASHSEED'] = str(hashseed)
    e['PYTHONPATH'] = VERIF + os.pathsep + e.get('PYTHONPATH', '')
    e['PYTHONWARNINGS'] = 'ignore'
    e['PYTHONDONTWRITEBYTECODE'] = '1'
    return subprocess.run([sys.executable, '-c', code, *args], capture_output=True, text=True,
                          timeout=timeout, env=e, cwd=VERIF)


# ----------------------------------------------------------------------------------
# history differential: the value of an expression must not depend on what was built before it
# ----------------------------------------------------------------------------------
_HD_CODE = r"""
import json, sys
sys.setrecursionlimit(1000)
from mc.env import NS
spec = json.load(open(sys.argv[1]))
exprs, seq = spec['exprs'], spec['seq']
out = []
for i in seq:
    try:
        r = eval(exprs[i], dict(NS))
        out.append([i, str(r)])
    except BaseException as ex:
        out.append([i, '!' + type(ex).__name__])
print('HD ' + json.dumps(out))
"""

_PROBE_CODE = r"""
import json, os, sys
sys.setrecursionlimit(1000)
from mc.env import NS
spec = json.load(open(sys.argv[1]))
exprs, target = spec['exprs'], spec['target']
def ev(e):
    try:
        return str(eval(e, dict(NS)))
    except BaseException as ex:
        return '!' + type(ex).__name__
res = {}
for ci, c in enumerate(spec['candidates']):
    r, w = os.pipe()
    pid = os.fork()
    if pid == 0:
        os.close(r)
        ev(exprs[c])
        os.write(w, ev(exprs[target]).encode('utf-8', 'surrogatepass')[:4000])
        os._exit(0)
    os.close(w)
    data = b''
    while True:
        chunk = os.read(r, 65536)
        if not chunk:
            break
        data += chunk
    os.close(r)
    os.waitpid(pid, 0)
    res[c] = data.decode('utf-8', 'surrogatepass')
print('PROBE ' + json.dumps({'alone': ev(exprs[target])[:4000], 'after': res}))
"""


def _child(code, payload, tag, hashseed=0):
    import tempfile
    td = tempfile.mkdtemp(prefix='hd_')
    try:
        path = os.path.join(td, 'spec.json')
        with open(path, 'w', encoding='utf-8') as fh:
            json.dump(payload, fh)
        e = dict(os.environ)
        e.update({'PYTHONHASHSEED': str(hashseed), 'PYTHONPATH': VERIF, 'PYTHONWARNINGS': 'ignore', 'PYTHONDONTWRITEBYTECODE': '1'})
        r = subprocess.run([sys.executable, '-c', code, path], capture_output=True, text=True, env=e, cwd=VERIF, timeout=3000)
        for line in r.stdout.splitlines():
            if line.startswith(tag + ' '):
                return json.loads(line[len(tag) + 1:])
        raise Internal('history-differential child failed: ' + r.stderr[-800:])
    finally:
        import shutil
        shutil.rmtree(td, ignore_errors=True)


def fresh_eval(exprs):
    """str() of the last expression after evaluating the earlier ones, in a fresh interpreter (used by replay snippets)"""
    seq = list(range(len(exprs)))
    return _child(_HD_CODE, {'exprs': list(exprs), 'seq': seq}, 'HD')[-1][1]


def history_differential(run, exprs, label=''):
    """Evaluates `exprs` in fresh interpreters in four orders (forward, reverse, each expression twice in a row,
    odd positions before even ones).  An expression whose value differs between any two evaluations depends on
    construction history; the shortest history [c, e] that shows it is searched by fork-probing and reported."""
    from concurrent.futures import ThreadPoolExecutor
    n = len(exprs)
    fwd = list(range(n))
    orders = {'forward': fwd, 'reverse': fwd[::-1], 'doubled': [i for i in fwd for _ in (0, 1)],
              'odd-then-even': fwd[1::2] + fwd[0::2]}
    with ThreadPoolExecutor(4) as ex:
        outs = dict(zip(orders, ex.map(lambda seq: _child(_HD_CODE, {'exprs': exprs, 'seq': seq}, 'HD'), orders.values())))
    seen = {}
    for name, res in outs.items():
        for i, o in res:
            seen.setdefault(i, {}).setdefault(o, name)
    bad = [i for i in fwd if len(seen[i]) > 1]
    evaluations = sum(len(v) for v in orders.values())
    for i in bad[:12]:
        cands = [c for c in fwd if c != i]
        probe = _child(_PROBE_CODE, {'exprs': exprs, 'target': i, 'candidates': cands + [i]}, 'PROBE')
        culprit = next((int(c) for c, o in probe['after'].items() if o != probe['alone']), None)
        vals = list(seen[i].items())
        if culprit is not None:
            run.add([V(f'{run.pid}|history|{exprs[i]}',
                       f"{exprs[i]} is {probe['alone'][:120]!r} in a fresh interpreter but {probe['after'][str(culprit)][:120]!r} after {exprs[culprit]} was built",
                       f"from mc.common import fresh_eval\nE = {exprs[i]!r}\nC = {exprs[culprit]!r}\nassert fresh_eval([E]) == fresh_eval([C, E]), (fresh_eval([E]), fresh_eval([C, E]))")])
        else:
            run.add([V(f'{run.pid}|history|{exprs[i]}',
                       f"{exprs[i]} evaluates to {vals[0][0][:100]!r} in order {vals[0][1]} but {vals[1][0][:100]!r} in order {vals[1][1]} ({label})",
                       f"# no two-step history reproduces it; orders: {vals!r}\nraise AssertionError('history-dependent value')")])
    run.count('history_differential_expressions', n)
    run.count('history_differential_evaluations', evaluations)
    return evaluations
