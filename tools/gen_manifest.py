#!/usr/bin/env python3
"""Writes /verif/MANIFEST.json from the table below (kept in one place so it stays valid)."""
import json
import os

HERE = os.path.dirname(os.path.dirname(os.path.abspath(__file__)))
PY = '/venv/bin/python'

GRAPH_NOTE = ('Trusted: CPython re / re._parser as reader and executor of regex syntax; the canonical-key merge '
              'argument of DESIGN.md 1.2.  Bounded by expression depth and the code-derived atom alphabet '
              'stated in the evidence.  Every check also runs the history differential (constructor calls in four '
              'orders in fresh interpreters) and, for graph checks, the purity re-check; new violations are confirmed '
              'in fresh interpreters under real PYTHONHASHSEEDs before they are reported (DESIGN.md 9).')

CHECKS = {
    'C01': ('exhaustive enumeration of code points, literal alphabet and every str argument position; parse-tree normal form',
            'Pregex(c) for every code point, Pregex(s) for every literal of the code-derived alphabet and every '
            '(str position, literal) pair are constructed on the real library; the contribution of s must have the '
            'normal form Seq[Lit], which decides exact-match for all texts.', '3 C01',
            'Trusted: re._parser as reader of regex syntax. Literal length bounded (<=2 over 45 symbols + curated, triples over the escape set in thorough).'),
    'C04': ('exhaustive product operands x quantifier forms x bound domain x spellings; structural equivalence + executed counting',
            'Every (operand, quantifier, bound tuple, greediness, spelling) over the stated domains is executed; results are '
            'compared with (?:X){n,m}, counted on witness repetitions, and rejections compared with an independent decision table.',
            '3 C04', GRAPH_NOTE),
    'C06': ('exhaustive enumeration of constructor arguments; exact denotation over all 1,114,112 code points; set-order schedules with bounded deviations',
            'Every constructor call over the stated argument domains is executed under the sorted set order and under every schedule with '
            '<= 1 (thorough: 2) order deviations; the exact set of matched code points is computed from the normal form of the emitted text '
            '(cross-validated by brute force over all code points) and compared with the requested set.', '3 C06',
            'Trusted: re._parser, CPython set semantics apart from iteration order. Unicode-only members of \\d \\s \\w are masked as the property states.'),
    'C07': ('explicit-state search of the class value graph under | - ~ to depth 2; exact denotations; set-order schedules with bounded deviations',
            'atoms x atoms (all 28 intervals over a..h, straddling intervals, named and negated classes, tokens and non-classes) under both '
            'operators and orders, negation and double negation, then every distinct result against a 40-atom core; judged by set arithmetic on '
            'the operands\' own denotations over all code points.', '3 C07',
            'Trusted: re._parser. Operand denotations are read from the operands\' own emitted text (constructors are C06).'),
    'C08': ('explicit-state BFS of the grouping sub-graph to depth 4/5; tree model of capture()/group()',
            'All nestings of capture()/capture(name)/group()/group(True)/optional/concat up to the depth bound; the result tree '
            'is predicted from the operand tree by the documented rules.', '3 C08', GRAPH_NOTE),
    'C02': ('explicit-state BFS of the DSL value graph; parse-tree normal form, else exhaustive bounded texts',
            'Every transition of the DSL value graph up to the stated depth executes the real operation in all '
            'spellings and is compared with the parenthesised composition of its operands: equal normal forms '
            '(all texts) or all texts over a derived alphabet up to a stated length.', '3 C02', GRAPH_NOTE),
    'C03': ('explicit-state BFS of the DSL value graph + exhaustive API argument products',
            'Every transition must raise a documented exception or return a value that re compiles and whose '
            'exported text is printable and equivalent.', '3 C03', GRAPH_NOTE),
    'C05': ('explicit-state BFS of the DSL value graph; documented empty-pattern laws on every transition with an empty operand',
            'All ways of being empty reach the single canonical empty state; each documented law is checked on '
            'every transition in which an operand is empty.', '3 C05', GRAPH_NOTE),
    'C09': ('explicit-state BFS of the DSL value graph; three-valued origin/tree model of repeatability',
            'Every (operand, quantifier spelling, bound) transition is compared with the must-raise / must-accept model.',
            '3 C09', GRAPH_NOTE),
    'C10': ('explicit-state BFS of the DSL value graph; structural width model of the assertion operand',
            'Every lookbehind transition: NonFixedWidthPatternException iff the operand width range is not a single value.',
            '3 C10', GRAPH_NOTE),
    'C11': ('explicit-state search of the per-instance cache protocol to closure + all histories to depth 3/5; exhaustive texts',
            'For every pattern every history over compile/get_compiled_pattern(T|F)/purge up to the depth bound is replayed on a fresh instance; '
            'each distinct abstract state (compiled?, in re cache?) gets all six observers on all texts up to the length bound, compared with re itself.',
            '3 C11', 'Trusted: re.finditer/search/fullmatch under MULTILINE|DOTALL on str(p).'),
    'C12': ('exhaustive enumeration of group layouts x texts x getter parameters against re.Match',
            'All layouts of <= 3 (4) groups x all texts over {a,b,c} up to length 5 (6) x 4 getters x include_empty x relative_to_match x get/iterate.',
            '3 C12', 'Trusted: re.Match.group/span/groupdict.'),
    'C13': ('exhaustive enumeration of patterns x texts x counts x replacements; reconstruction oracle',
            'split pieces interleaved with matches/captures must rebuild the source; replace equals substitution of the first count finditer spans.',
            '3 C13', 'Trusted: re.finditer spans. Replacement strings are plain.'),
    'C14': ('exhaustive enumeration of is_path methods x patterns x file contents x window sizes',
            'Every method with is_path is called on a real UTF-8 file and on its content; windows are compared with slice arithmetic on the text.',
            '3 C14', 'File contents avoid \\r. Files live in a temp dir the check creates and removes.'),
    'C15': ('exhaustive enumeration of parameter pairs x numerals x contexts against a numeric model',
            'All 0<=start<=end<=110 (thorough: to 1100) x every digit string up to one digit longer than end, between spaces and as whole text; '
            'boundary parameter pairs x boundary numerals x clean contexts (both directions) and open contexts (safety half) x 5 sign variants; '
            'extensible form through prefix + numeral.', '3 C15',
            'Numerals glued to letters/underscores/dots are only checked for safety, as the documentation leaves them open.'),
    'C16': ('exhaustive enumeration of ranges x fraction bounds x candidates x contexts against a numeric model',
            'ranges x fraction bounds x 5 sign variants x (integer parts incl. none and leading-zero forms) x fraction strings of every length 0..max+2 '
            'x signs x clean contexts; is_exact_match and prefix + extensible.', '3 C16', 'Composition of the C15 model with the fraction-length bound.'),
    'C17': ('exhaustive enumeration of bases/bounds/affix lists x candidate strings; automaton product for extensible Numeral',
            'All bases 2..16 x length bounds x both is_extensible x every candidate string over a 6-symbol alphabet; every extensible Numeral is also '
            'decided for all strings by the product of its NFA with a counting reference; Word over all texts of length <= 6; Word* with literal affixes.',
            '3 C17', 'Word characters in candidates are ASCII.'),
    'C18': ('explicit-state product of the NFA of the emitted pattern with a hand-written RFC 4291 / dotted-quad automaton; all access strings replayed',
            'Acceptance must agree in every reachable product state, which decides the whole (regular) language of the extensible patterns with no length '
            'bound; every access string is replayed on re/is_exact_match and on ipaddress; non-extensible forms by guard structure and embedded contexts.',
            '3 C18', 'Trusted: ipaddress as ground truth for strings over the address alphabet; \\d restricted to ASCII.'),
    'C19': ('exhaustive enumeration of formats x candidate strings against a direct parser of the format string',
            'All 48 formats x both is_extensible x every 1-2 digit part value x year strings x 4 separator combinations; format pairs and None on '
            'accepted + near-miss candidates; invalid format arguments.', '3 C19', 'The reference is a 12-line parser of the format string.'),
    'C20': ('explicit-state BFS of the DSL value graph with operand snapshots; history search; set-order exploration',
            'Operands are snapshotted before/after every transition; rebuilt expressions must reach the same state.',
            '3 C20', GRAPH_NOTE),
}

ALL = ['C%02d' % i for i in range(1, 21)]


def main():
    checks = []
    for pid in ALL:
        if pid not in CHECKS:
            continue
        tech, text, ref, note = CHECKS[pid]
        checks.append({
            'property_id': pid,
            'quick_cmd': f'{PY} -m mc.check {pid} --tier quick',
            'thorough_cmd': f'{PY} -m mc.check {pid} --tier thorough',
            'evidence_file': f'/verif/evidence/{pid}.json',
            'replay_cmd_template': f'{PY} -m mc.replay {{path}}',
            'engine': 'mc',
            'level_claimed': {'category': 'model_checking', 'text': text, 'design_ref': 'DESIGN.md section ' + ref},
            'level_note': note,
            'technique': tech,
        })
    m = {
        'version': 1,
        'setup_cmd': f'{PY} -m compileall -q /verif/mc',
        'hooks': {
            'guard': 'PREGEX_VERIF',
            'enable': 'no source hook exists: the checks import /repo/src directly and install the set-order '
                      'seam from outside (module-global shadowing in pregex.core.classes); PREGEX_VERIF=1 is set by mc.env only as a reserved name',
            'baseline_off_cmd': 'cd /repo && /venv/bin/python -m pytest -ra -q -p no:cacheprovider --timeout=900 --continue-on-collection-errors',
            'source_commits': [],
            'add_only': True,
        },
        'engines': [{'name': 'mc', 'path': '/verif/mc', 'serves_properties': sorted(CHECKS),
                     'kind_free_text': 'hand-written explicit-state / bounded-exhaustive explorer over the real pregex objects'}],
        'checks': checks,
        'not_applicable': [{'property_id': p, 'reason': 'check not built yet (work in progress; see DESIGN.md section 3)'}
                           for p in ALL if p not in CHECKS],
        'notes': 'See DESIGN.md (sections 9-11 describe what was built, the triage of the unchanged tree and the detection results). '
                 'Known findings: known_findings.json (no open finding; every genuine defect found was repaired and is listed as fixed; known/*.keys would hold the exact failing inputs of an open finding). '
                 'Seeded changes and results: seeded/ (tools/seeded_matrix.py).  No source hook exists in /repo.',
    }
    with open(os.path.join(HERE, 'MANIFEST.json'), 'w') as fh:
        json.dump(m, fh, indent=1)
    print('checks:', len(checks), 'not_applicable:', len(m['not_applicable']))


if __name__ == '__main__':
    main()
