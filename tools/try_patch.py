#!/usr/bin/env python3
"""Developer tool: apply a patch to a scratch worktree of /repo, (optionally) run the library's test
suite and a demo there, run the listed checks against it (PREGEX_VERIF_SRC), remove the worktree.

  tools/try_patch.py <patch.diff> [--tests] [--demo demo.py] [--tier quick] C02 C03 ...
"""
import os
import shutil
import subprocess
import sys
import tempfile
import time


def sh(cmd, **kw):
    return subprocess.run(cmd, shell=isinstance(cmd, str), capture_output=True, text=True, **kw)


def main():
    args = sys.argv[1:]
    patch = os.path.abspath(args.pop(0))
    tests = '--tests' in args
    tier, demo = 'quick', None
    pids = []
    it = iter([a for a in args if a != '--tests'])
    for a in it:
        if a == '--tier':
            tier = next(it)
        elif a == '--demo':
            demo = os.path.abspath(next(it))
        else:
            pids.append(a)
    wt = tempfile.mkdtemp(prefix='mut_', dir='/tmp')
    os.rmdir(wt)
    r = sh(['git', '-C', '/repo', 'worktree', 'add', '-q', '--detach', wt, 'HEAD'])
    if r.returncode:
        print(r.stderr)
        return 2
    rc_all = 0
    try:
        r = sh(['git', '-C', wt, 'apply', patch])
        if r.returncode:
            print('PATCH DOES NOT APPLY:', r.stderr[:500])
            return 2
        env = dict(os.environ, PYTHONPATH=wt + '/src', PYTHONWARNINGS='ignore')
        if demo:
            r0 = sh(['/venv/bin/python', demo], env=dict(os.environ, PYTHONPATH='/repo/src', PYTHONWARNINGS='ignore'))
            r1 = sh(['/venv/bin/python', demo], env=env)
            print(f'demo: clean rc={r0.returncode}, patched rc={r1.returncode}')
        if tests:
            r = sh('/venv/bin/python -m pytest -q -p no:cacheprovider -x 2>&1 | tail -1', cwd=wt, env=env)
            print('tests:', r.stdout.strip())
        for pid in pids:
            t0 = time.time()
            e = dict(os.environ, PREGEX_VERIF_SRC=wt + '/src')
            r = sh(['/venv/bin/python', '-m', 'mc.check', pid, '--tier', tier], cwd='/verif', env=e)
            lines = r.stdout.splitlines()
            viol = [l for l in lines if l.startswith('VIOLATION')]
            more = [l for l in lines if l.startswith('... and')]
            first = ''
            for i, l in enumerate(lines):
                if l.startswith('VIOLATION') and i + 1 < len(lines):
                    first = lines[i + 1].strip()[:220]
                    break
            print(f'{pid}: rc={r.returncode} violations>={len(viol)} {more[0] if more else ""} [{time.time() - t0:.0f}s] {first}')
            if r.returncode == 2:
                print(r.stdout[-1500:], r.stderr[-1500:])
            rc_all |= r.returncode
    finally:
        sh(['git', '-C', '/repo', 'worktree', 'remove', '--force', wt])
        shutil.rmtree(wt, ignore_errors=True)
    return rc_all


if __name__ == '__main__':
    sys.exit(main())
