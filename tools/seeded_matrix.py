#!/usr/bin/env python3
"""Runs every seeded change in /verif/seeded against its target check(s) in a scratch worktree and
writes seeded/RESULTS.json + seeded/RESULTS.md.   tools/seeded_matrix.py [ids...] [--tier quick]"""
import json
import os
import subprocess
import sys
import time

ROOT = '/verif/seeded'


def sh(cmd, **kw):
    return subprocess.run(cmd, capture_output=True, text=True, **kw)


def main():
    args = [a for a in sys.argv[1:] if not a.startswith('--')]
    tier = 'quick'
    if '--tier' in sys.argv:
        tier = sys.argv[sys.argv.index('--tier') + 1]
        args = [a for a in args if a != tier]
    ids = args or sorted(d for d in os.listdir(ROOT) if os.path.isdir(os.path.join(ROOT, d)))
    res_path = os.path.join(ROOT, 'RESULTS.json')
    if '--out' in sys.argv:       # parallel streams write their own file; merge with --merge f1 f2 ...
        res_path = sys.argv[sys.argv.index('--out') + 1]
        args = [a for a in args if a != res_path]
        ids = args
    if '--merge' in sys.argv:
        results = json.load(open(res_path)) if os.path.exists(res_path) else {}
        for f in args:
            results.update(json.load(open(f)))
        json.dump(results, open(res_path, 'w'), indent=1, sort_keys=True)
        ids = []
    if '--merge' not in sys.argv:
        results = json.load(open(res_path)) if os.path.exists(res_path) else {}
    for mid in ids:
        d = os.path.join(ROOT, mid)
        meta = json.load(open(os.path.join(d, 'meta.json')))
        if meta.get('retired'):
            results[mid] = {'property': meta['property'], 'tier': tier, 'checks': {}, 'error': 'retired: ' + meta['retired']}
            continue
        wt = '/tmp/seeded_wt_' + mid
        sh(['git', '-C', '/repo', 'worktree', 'remove', '--force', wt])
        r = sh(['git', '-C', '/repo', 'worktree', 'add', '-q', '--detach', wt, 'HEAD'])
        entry = {'property': meta['property'], 'tier': tier, 'checks': {}}
        try:
            r = sh(['git', '-C', wt, 'apply', os.path.join(d, 'patch.diff')])
            if r.returncode:
                entry['error'] = 'patch does not apply: ' + r.stderr[:200]
                results[mid] = entry
                continue
            env = dict(os.environ, PYTHONPATH=wt + '/src', PYTHONWARNINGS='ignore')
            t = sh('/venv/bin/python -m pytest -q -p no:cacheprovider -x 2>&1 | tail -1', shell=True, cwd=wt, env=env)
            entry['tests'] = t.stdout.strip()
            demo = os.path.join(d, 'demo.py')
            if os.path.exists(demo):
                r0 = sh(['/venv/bin/python', demo], env=dict(os.environ, PYTHONPATH='/repo/src', PYTHONWARNINGS='ignore'))
                r1 = sh(['/venv/bin/python', demo], env=env)
                entry['demo'] = {'clean_rc': r0.returncode, 'patched_rc': r1.returncode}
            for pid in meta.get('checks', [meta['property']]):
                t0 = time.time()
                e = dict(os.environ, PREGEX_VERIF_SRC=wt + '/src')
                r = sh(['/venv/bin/python', '-m', 'mc.check', pid, '--tier', tier], cwd='/verif', env=e)
                lines = r.stdout.splitlines()
                first = ''
                for i, l in enumerate(lines):
                    if l.startswith('VIOLATION') and i + 1 < len(lines):
                        first = lines[i + 1].strip()[:240]
                        break
                entry['checks'][pid] = {'rc': r.returncode, 'violation_lines': sum(l.startswith('VIOLATION') for l in lines),
                                        'first': first, 'wall_s': round(time.time() - t0)}
            results[mid] = entry
            print(mid, entry['tests'], entry.get('demo'), {k: (v['rc'], v['wall_s']) for k, v in entry['checks'].items()}, flush=True)
        finally:
            sh(['git', '-C', '/repo', 'worktree', 'remove', '--force', wt])
            json.dump(results, open(res_path, 'w'), indent=1, sort_keys=True)
    with open(os.path.join(ROOT, 'RESULTS.md'), 'w') as fh:
        fh.write('| id | property | tests with change | demo clean/patched rc | check -> exit code | first violation |\n|---|---|---|---|---|---|\n')
        for mid in sorted(results):
            e = results[mid]
            meta = json.load(open(os.path.join(ROOT, mid, 'meta.json')))
            ck = ', '.join('%s -> %s' % (k, v['rc']) for k, v in e.get('checks', {}).items())
            first = next((v['first'] for v in e.get('checks', {}).values() if v['first']), '')
            dm = e.get('demo')
            fh.write('| %s | %s | %s | %s | %s | %s |\n' % (mid, e['property'], e.get('tests', e.get('error', '')),
                                                            '%s/%s' % (dm['clean_rc'], dm['patched_rc']) if dm else '-', ck,
                                                            first.replace('|', '\\|')[:160] + (' (expected silent: equivalent change)' if meta.get('expected') == 'silent' else ' (outside the specified zone, see meta.json)' if meta.get('expected') == 'unspecified' else ' (NOT DETECTED - open gap, see meta.json)' if meta.get('expected') == 'missed' else '')))


if __name__ == '__main__':
    main()
